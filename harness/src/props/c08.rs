//! C08 — independent implementations of the same model agree.
//!
//! Every case is a *pair* (left, right) of models that describe the same physical model through
//! different code, evaluated at the same (T, V, N). Compared through the public `State` getters:
//! beta A_res/N, p_res, S_res, mu_res_i, dp/dV, dp/dT, dp/dN_i, dmu_i/dN_j (all residual parts).
//! The scale of every comparison is cancellation safe (sum over contributions of |d^k A_c|).
use crate::engine::{Ctx, Gen, Obs, PanicPolicy, PartCfg};
use crate::model::*;
use crate::scales::{contrib_values, PD};
use feos::association::Association;
use feos::core::cubic::PengRobinson;
use feos::core::parameter::{BinaryRecord, ChemicalRecord, Parameter, PureRecord, SegmentRecord};
use feos::core::Derivative::{DN, DT, DV};
use feos::core::{Components, Contributions, EquationOfState, ReferenceSystem, Residual, State, StateHD};
use feos::epcsaft::ElectrolytePcSaft;
use feos::gc_pcsaft::{GcPcSaft, GcPcSaftFunctional};
use feos::hard_sphere::{FMTFunctional, HardSphere, HardSphereProperties, MonomerShape};
use feos::ideal_gas::IdealGasModel;
use feos::pcsaft::{PcSaft, PcSaftFunctional, PcSaftParameters, PcSaftRecord};
use feos::pets::{Pets, PetsFunctional, PetsOptions};
use feos::saftvrmie::SaftVRMie;
use feos::saftvrqmie::{SaftVRQMie, SaftVRQMieFunctional};
use feos::uvtheory::UVTheory;
use ndarray::{Array1, ScalarOperand};
use num_dual::DualNum;
use quantity::*;
use serde::{Deserialize, Serialize};
use serde_json::{json, Value};
use std::collections::BTreeMap;
use std::sync::{Arc, Mutex};

// ---------------------------------------------------------------------------------------
// Case
// ---------------------------------------------------------------------------------------
#[derive(Serialize, Deserialize, Clone, Copy, Debug, PartialEq, Eq)]
pub enum Pair {
    /// Helmholtz energy functional as bulk `Residual` vs its equation of state
    DftBulk,
    /// `ResidualModel::X(m)` and `EquationOfState<IdealGasModel, m>` vs bare `m`
    Wrapper,
    /// ion-free ePC-SAFT vs PC-SAFT
    EpcIonFree,
    /// SAFT-VRQ Mie with Feynman-Hibbs order 0 vs SAFT-VR Mie with m = 1
    VrqVsVrMie,
    /// an associating component vs the same component split into two identical ones
    AssocSplit,
    /// `Association::new` vs `Association::new_cross_association`
    AssocForced,
    /// `PcSaftParameters::from_segments` vs `from_records` of the harness-combined record
    HomoGc,
    /// Peng-Robinson vs the textbook closed form in SI units
    PengRobinson,
}

#[derive(Serialize, Deserialize, Clone, Debug)]
pub struct Case {
    pub pair: Pair,
    /// the left model (HomoGc: family PcSaft, `pure` holds chemical records, `seg` the homo files)
    pub spec: ModelSpec,
    pub state: StateSpec,
    /// DIPPR pool indices (Wrapper)
    pub ig: Vec<usize>,
    /// AssocSplit: component that is split and the fraction that stays in the first copy
    pub comp: usize,
    pub split: f64,
}

// ---------------------------------------------------------------------------------------
// Tolerances (DESIGN.md 3.4). allowed = rel * min(S_l, S_r) + round * max(S_l, S_r) [+ abs]
// where S_x = sum over the contributions of side x of |d^k A_c| (the Helmholtz energy
// functionals carry an ideal-chain term rho (m-1)(ln rho - 1) that cancels against the chain
// functional: their S is ~20x larger than that of the equation of state in dilute states, so the
// relative part uses the smaller, the roundoff part the larger of the two).
// ---------------------------------------------------------------------------------------
#[derive(Clone, Copy)]
pub(crate) struct Tol {
    pub rel: f64,
    pub round: f64,
}
/// two implementations of one model
pub(crate) const TOL_IMPL: Tol = Tol { rel: 1e-9, round: 1e-12 };
/// wrappers / copies of the same code: measured bitwise..2e-16
pub(crate) const TOL_SAME: Tol = Tol { rel: 1e-13, round: 1e-13 };
/// group-contribution sums run over HashMaps (per-process order)
pub(crate) const TOL_GC: Tol = Tol { rel: 1e-11, round: 1e-12 };
/// pairs that involve the iterative association solver: 100 x tol_cross_assoc (<= 1e-10)
pub(crate) const TOL_ASSOC: Tol = Tol { rel: 1e-8, round: 1e-12 };
/// monomer fractions carry an absolute error of a few eps: floor relative to the ideal-like
/// scale (N T for A, T for mu, ...) per association site (measured 3e-16, see calibration)
pub(crate) const FLOOR_ASSOC: f64 = 2e-14;
/// atol on beta A/N (DESIGN.md 3.4)
pub(crate) const ATOL_A: f64 = 1e-11;

pub(crate) static WORST: Mutex<BTreeMap<String, (f64, f64)>> = Mutex::new(BTreeMap::new());

pub(crate) fn track(key: &str, ratio: f64, rel: f64) {
    if !ratio.is_finite() {
        return;
    }
    let mut w = WORST.lock().unwrap();
    let e = w.entry(key.to_string()).or_insert((0.0, 0.0));
    if ratio > e.0 {
        e.0 = ratio;
    }
    if rel > e.1 {
        e.1 = rel;
    }
}

// ---------------------------------------------------------------------------------------
// Harness-side reference models built from public pieces of the library
// ---------------------------------------------------------------------------------------
/// additive hard spheres with temperature independent diameters
pub struct Spheres {
    sigma: Array1<f64>,
}
impl HardSphereProperties for Spheres {
    fn monomer_shape<D: DualNum<f64> + Copy>(&self, _: D) -> MonomerShape<'_, D> {
        MonomerShape::Spherical(self.sigma.len())
    }
    fn hs_diameter<D: DualNum<f64> + Copy>(&self, _: D) -> Array1<D> {
        self.sigma.mapv(D::from)
    }
}
/// the `HardSphere` (BMCSL) contribution alone, as a `Residual`
pub struct HsEos {
    p: Arc<Spheres>,
    hs: HardSphere<Spheres>,
}
impl HsEos {
    fn new(sigma: Array1<f64>) -> Self {
        let p = Arc::new(Spheres { sigma });
        Self {
            hs: HardSphere::new(&p),
            p,
        }
    }
}
impl Components for HsEos {
    fn components(&self) -> usize {
        self.p.sigma.len()
    }
    fn subset(&self, idx: &[usize]) -> Self {
        Self::new(idx.iter().map(|&i| self.p.sigma[i]).collect())
    }
}
impl Residual for HsEos {
    fn compute_max_density(&self, moles: &Array1<f64>) -> f64 {
        moles.sum() / (moles * &self.p.sigma).sum() * 1.2
    }
    fn residual_helmholtz_energy_contributions<D: DualNum<f64> + Copy + ScalarOperand>(
        &self,
        state: &StateHD<D>,
    ) -> Vec<(String, D)> {
        vec![("Hard Sphere".into(), self.hs.helmholtz_energy(state))]
    }
}

/// the PC-SAFT association contribution alone, as a `Residual`
pub struct AssocOnly {
    p: Arc<PcSaftParameters>,
    assoc: Association<PcSaftParameters>,
}
impl AssocOnly {
    fn new(p: Arc<PcSaftParameters>, cross: bool, max_iter: usize, tol: f64) -> Self {
        let assoc = if cross {
            Association::new_cross_association(&p, &p.association, max_iter, tol)
        } else {
            Association::new(&p, &p.association, max_iter, tol)
        };
        Self { p, assoc }
    }
}
impl Components for AssocOnly {
    fn components(&self) -> usize {
        self.p.m.len()
    }
    fn subset(&self, _: &[usize]) -> Self {
        unimplemented!()
    }
}
impl Residual for AssocOnly {
    fn compute_max_density(&self, moles: &Array1<f64>) -> f64 {
        0.5 * moles.sum()
            / (std::f64::consts::FRAC_PI_6 * &self.p.m * self.p.sigma.mapv(|v| v.powi(3)) * moles).sum()
    }
    fn residual_helmholtz_energy_contributions<D: DualNum<f64> + Copy + ScalarOperand>(
        &self,
        state: &StateHD<D>,
    ) -> Vec<(String, D)> {
        let d = self.p.hs_diameter(state.temperature);
        vec![("Association".into(), self.assoc.helmholtz_energy(state, &d))]
    }
}

// ---------------------------------------------------------------------------------------
// Typed models (bare structs, not the enum)
// ---------------------------------------------------------------------------------------
pub(crate) trait Visitor {
    type Out;
    fn visit<E: Residual + 'static>(self, eos: Arc<E>) -> Self::Out;
}

pub(crate) fn with_typed<V: Visitor>(spec: &ModelSpec, v: V) -> Result<V::Out, String> {
    let o = &spec.opts;
    Ok(match spec.family {
        Family::PengRobinson => v.visit(Arc::new(PengRobinson::new(Arc::new(spec.pr_params()?)))),
        Family::PcSaft => v.visit(Arc::new(PcSaft::with_options(Arc::new(spec.pcsaft_params()?), o.pcsaft()))),
        Family::EPcSaft => v.visit(Arc::new(ElectrolytePcSaft::with_options(
            Arc::new(spec.epcsaft_params()?),
            o.epc(),
        ))),
        Family::GcPcSaft => v.visit(Arc::new(GcPcSaft::with_options(Arc::new(spec.gc_eos_params()?), o.gc()))),
        Family::Pets => v.visit(Arc::new(Pets::with_options(
            Arc::new(spec.pets_params()?),
            PetsOptions { max_eta: o.max_eta },
        ))),
        Family::UVTheory => v.visit(Arc::new(UVTheory::with_options(Arc::new(spec.uv_params()?), o.uv()))),
        Family::SaftVRMie => v.visit(Arc::new(SaftVRMie::with_options(Arc::new(spec.vrmie_params()?), o.vrmie()))),
        Family::SaftVRQMie => v.visit(Arc::new(SaftVRQMie::with_options(Arc::new(spec.vrq_params()?), o.vrq()))),
        Family::PcSaftFunctional => v.visit(Arc::new(PcSaftFunctional::with_options(
            Arc::new(spec.pcsaft_params()?),
            o.fmt_version(),
            o.pcsaft(),
        ))),
        Family::GcPcSaftFunctional => v.visit(Arc::new(GcPcSaftFunctional::with_options(
            Arc::new(spec.gc_dft_params()?),
            o.fmt_version(),
            o.gc(),
        ))),
        Family::PetsFunctional => v.visit(Arc::new(PetsFunctional::with_options(
            Arc::new(spec.pets_params()?),
            o.fmt_version(),
            PetsOptions { max_eta: o.max_eta },
        ))),
        Family::FmtFunctional => v.visit(Arc::new(FMTFunctional::new(&spec.fmt_sigma()?, o.fmt_version()))),
        Family::SaftVRQMieFunctional => v.visit(Arc::new(SaftVRQMieFunctional::with_options(
            Arc::new(spec.vrq_params()?),
            o.fmt_version(),
            o.vrq(),
        ))),
    })
}

// ---------------------------------------------------------------------------------------
// Properties of one side
// ---------------------------------------------------------------------------------------
pub(crate) type Inputs = (Temperature, Volume, Moles<Array1<f64>>);

#[derive(Clone, Debug)]
pub(crate) struct Props {
    pub t: f64,
    pub ntot: f64,
    pub vol: f64,
    /// (value, scale) pairs
    pub a: (f64, f64),
    pub p: (f64, f64),
    pub s: (f64, f64),
    pub dpdv: (f64, f64),
    pub dpdt: (f64, f64),
    pub mu: Vec<(f64, f64)>,
    pub dpdn: Vec<(f64, f64)>,
    pub dmu: Vec<Vec<(f64, f64)>>,
    /// names of the contributions and |A_c| / (T N)
    pub contributions: Vec<(String, f64)>,
}

/// (sum_c |d A_c|, value of the excluded contribution)
fn scale_excl<E: Residual>(s: &State<E>, d: PD, exclude: &[&str]) -> (f64, f64) {
    let v = contrib_values(s, d);
    let abs = v.iter().map(|(_, x)| x.abs()).sum();
    let ex = v.iter().filter(|(n, _)| exclude.contains(&n.as_str())).map(|(_, x)| *x).sum();
    (abs, ex)
}

/// Public getter values and cancellation-safe scales. The parts of the contributions named in
/// `exclude` are removed from every value (used to localise a known finding).
pub(crate) fn props<E: Residual>(eos: &Arc<E>, inp: &Inputs, exclude: &[&str]) -> Result<Props, String> {
    use Contributions::Residual as RES;
    let s = State::new_nvt(eos, inp.0, inp.1, &inp.2).map_err(|e| e.to_string())?;
    let n = eos.components();
    let t = s.temperature.to_reduced();
    let ntot = s.moles.to_reduced().sum();
    let sc = |d: PD| scale_excl(&s, d, exclude);
    let (sa, xa) = sc(PD::Zeroth);
    let (sp, xp) = sc(PD::First(DV));
    let (ss, xs) = sc(PD::First(DT));
    let (svv, xvv) = sc(PD::Second(DV));
    let (svt, xvt) = sc(PD::Mixed(DV, DT));
    let mu_v = s.residual_chemical_potential().to_reduced();
    let dpdn_v = s.dp_dni(RES).to_reduced();
    let dmu_v = s.dmu_dni(RES).to_reduced();
    let mut mu = vec![];
    let mut dpdn = vec![];
    let mut dmu = vec![vec![(0.0, 0.0); n]; n];
    for i in 0..n {
        let (sn, xn) = sc(PD::First(DN(i)));
        mu.push((mu_v[i] - xn, sn));
        let (svn, xvn) = sc(PD::Mixed(DV, DN(i)));
        dpdn.push((dpdn_v[i] + xvn, svn));
        for j in i..n {
            let (snn, xnn) = sc(PD::Mixed(DN(i), DN(j)));
            dmu[i][j] = (dmu_v[[i, j]] - xnn, snn);
            dmu[j][i] = (dmu_v[[j, i]] - xnn, snn);
        }
    }
    let contributions = contrib_values(&s, PD::Zeroth)
        .into_iter()
        .map(|(nm, v)| (nm, v.abs() / (t * ntot)))
        .collect();
    Ok(Props {
        t,
        ntot,
        vol: s.volume.to_reduced(),
        a: (s.residual_helmholtz_energy().to_reduced() - xa, sa),
        p: (s.pressure(RES).to_reduced() + xp, sp),
        s: (s.residual_entropy().to_reduced() + xs, ss),
        dpdv: (s.dp_dv(RES).to_reduced() + xvv, svv),
        dpdt: (s.dp_dt(RES).to_reduced() + xvt, svt),
        mu,
        dpdn,
        dmu,
        contributions,
    })
}

/// Compare two sides. `map[k]` = component of the left side that component k of the right side
/// corresponds to (identity except for split components). `floor` adds `floor x (ideal-gas-like
/// scale of the quantity)` to the allowed deviation: N T for A, rho T for p, N for S, T for mu, ...
/// (the association term is evaluated through monomer fractions X in (0,1] that carry an absolute
/// error of a few eps, i.e. an error relative to N T and not to the association energy itself).
/// Returns the number of comparisons whose common value exceeds 1e3 x the allowed deviation (a
/// 0.1 % error would be seen).
#[allow(clippy::too_many_arguments)]
pub(crate) fn compare(obs: &mut Obs, key: &str, l: &Props, r: &Props, map: &[usize], tol: Tol, extra_abs_a: f64, floor: f64) -> u32 {
    let mut sharp = 0u32;
    let tracked = !key.contains("(probe)") && !key.contains("(attribution)");
    let mut one = |obs: &mut Obs, what: &str, u: (f64, f64), v: (f64, f64), norm: f64, abs: f64| {
        if (u.1.is_nan() || v.1.is_nan()) && u.0.is_finite() && v.0.is_finite() {
            // finite value (by-product of a dual-number evaluation) but NaN contribution-wise scale
            // (f64 route of the association solver not converged): finding
            // C11/association-nonconvergence-flips-with-route, nothing to compare against
            obs.class("NaN scale with finite values: comparison skipped");
            return;
        }
        let (lo, hi) = (u.1.min(v.1), u.1.max(v.1));
        let allow = (tol.rel * lo + tol.round * hi) / norm + abs;
        let d = (u.0 - v.0).abs() / norm;
        obs.count();
        let ok = d <= allow && u.0.is_finite() && v.0.is_finite();
        if tracked {
            track(&format!("{key}/{}", what.split('[').next().unwrap()), d / allow, d / (lo / norm).max(1e-300));
        }
        if !ok {
            obs.fail(format!(
                "{key} {what}: left {:e} vs right {:e} (diff {:e} > allowed {:e}; scales {:e} / {:e})",
                u.0 / norm,
                v.0 / norm,
                d,
                allow,
                u.1 / norm,
                v.1 / norm
            ));
        }
        if (u.0.abs() / norm).max(v.0.abs() / norm) > 1e3 * allow {
            sharp += 1;
        }
    };
    let (t, n, v) = (l.t, l.ntot, l.vol);
    let nt = t * n;
    one(obs, "beta A_res/N", l.a, r.a, nt, ATOL_A + extra_abs_a + floor);
    one(obs, "p_res", l.p, r.p, 1.0, floor * nt / v);
    one(obs, "S_res", l.s, r.s, 1.0, floor * n);
    one(obs, "dp_dv", l.dpdv, r.dpdv, 1.0, floor * nt / (v * v));
    one(obs, "dp_dt", l.dpdt, r.dpdt, 1.0, floor * n / v);
    for (k, &i) in map.iter().enumerate() {
        one(obs, &format!("mu_res[{k}]"), l.mu[i], r.mu[k], 1.0, floor * t);
        one(obs, &format!("dp_dni[{k}]"), l.dpdn[i], r.dpdn[k], 1.0, floor * t / v);
        for (k2, &j) in map.iter().enumerate() {
            one(obs, &format!("dmu_dni[{k},{k2}]"), l.dmu[i][j], r.dmu[k][k2], 1.0, floor * t / n);
        }
    }
    sharp
}

// ---------------------------------------------------------------------------------------
// Generators
// ---------------------------------------------------------------------------------------
fn eos_family(f: Family) -> Family {
    match f {
        Family::PcSaftFunctional => Family::PcSaft,
        Family::GcPcSaftFunctional => Family::GcPcSaft,
        Family::PetsFunctional => Family::Pets,
        Family::SaftVRQMieFunctional => Family::SaftVRQMie,
        other => other,
    }
}

pub(crate) fn strip_polar(spec: &mut ModelSpec) {
    for p in spec.pure.iter_mut() {
        if let Some(o) = p["model_record"].as_object_mut() {
            o.remove("mu");
            o.remove("q");
        }
    }
}

pub(crate) fn mr_f64(p: &Value, key: &str) -> f64 {
    p["model_record"][key].as_f64().unwrap_or(0.0)
}

fn decode_pair(pair: Pair) -> impl Fn(&mut Gen) -> Case + Sync {
    move |g: &mut Gen| {
        let mut comp = 0;
        let mut split = 0.5;
        let mut ig = vec![];
        let spec = match pair {
            Pair::DftBulk => {
                // weights 10:3:2:2:3 — the PC-SAFT functional has the most code that differs (three FMT
                // versions x pure/mixture paths x polar x association); SAFT-VRQ Mie and gc-PC-SAFT
                // functionals cost 50-250 ms per pair-state (measured), so they get fewer cases
                let mut fams = vec![Family::PcSaftFunctional; 10];
                fams.extend([Family::GcPcSaftFunctional; 3]);
                fams.extend([Family::PetsFunctional; 2]);
                fams.extend([Family::SaftVRQMieFunctional; 2]);
                fams.extend([Family::FmtFunctional; 3]);
                let mut s = gen_model(g, &GenCfg { families: fams, min_comp: 1, max_comp: 3 });
                if matches!(s.family, Family::GcPcSaftFunctional | Family::SaftVRQMieFunctional) && s.n() == 3 && g.bool(0.66) {
                    s = s.subset(&[0, 1]);
                }
                if s.family == Family::PcSaftFunctional {
                    // make sure the dipole-quadrupole cross term is exercised: (1) both moments on
                    // one component, (2) dipole and quadrupole on different components
                    match g.index(6) {
                        4 => {
                            let k = g.index(s.n());
                            if mr_f64(&s.pure[k], "mu") == 0.0 {
                                s.pure[k]["model_record"]["mu"] = json!(g.range(0.5, 4.0));
                            }
                            if mr_f64(&s.pure[k], "q") == 0.0 {
                                s.pure[k]["model_record"]["q"] = json!(g.range(1.0, 8.0));
                            }
                            s.source = format!("{}+dq", s.source);
                        }
                        5 if s.n() >= 2 => {
                            if mr_f64(&s.pure[0], "mu") == 0.0 {
                                s.pure[0]["model_record"]["mu"] = json!(g.range(0.5, 4.0));
                            }
                            if mr_f64(&s.pure[1], "q") == 0.0 {
                                s.pure[1]["model_record"]["q"] = json!(g.range(1.0, 8.0));
                            }
                            s.source = format!("{}+d|q", s.source);
                        }
                        _ => {}
                    }
                }
                s
            }
            Pair::Wrapper => {
                let s = gen_model(g, &GenCfg::all(3));
                ig = (0..s.n()).map(|_| g.index(POOLS.dippr.len())).collect();
                s
            }
            Pair::EpcIonFree => {
                let mut s = gen_model(g, &GenCfg { families: vec![Family::PcSaft], min_comp: 1, max_comp: 3 });
                strip_polar(&mut s);
                s
            }
            Pair::VrqVsVrMie => {
                // pure monomers only: for mixtures SAFT-VRQ Mie evaluates d_ij from the ij potential
                // (non-additive diameters) while SAFT-VR Mie uses d_ij = (d_i + d_j)/2 - a different
                // physical model by design, not a second implementation of the same one
                let n = 1;
                let mut pure = vec![];
                let mut source = String::from("random");
                for k in 0..n {
                    let mr = if g.bool(0.3) {
                        // shipped monomers of lafitte2013 (methane, CF4)
                        source = "shipped:lafitte2013".into();
                        let mono: Vec<&Value> =
                            POOLS.vrmie.iter().filter(|r| r["model_record"]["m"].as_f64() == Some(1.0)).collect();
                        mono[g.index(mono.len())]["model_record"].clone()
                    } else {
                        json!({"m": 1.0, "sigma": g.range(2.8, 4.8), "epsilon_k": g.range(20.0, 450.0),
                               "lr": g.range(8.0, 30.0), "la": if g.bool(0.3) { g.range(5.0, 7.0) } else { 6.0 }})
                    };
                    pure.push(json!({"identifier": {"name": format!("comp{k}"), "cas": format!("{}-00-{k}", 100 + k)},
                        "molarweight": g.range(2.0, 150.0), "model_record": mr}));
                }
                let mut binary = vec![];
                for i in 0..n {
                    for j in i + 1..n {
                        if g.bool(0.5) {
                            binary.push((i, j, json!({"k_ij": g.range(-0.1, 0.1)})));
                        }
                    }
                }
                let mut opts = Opts::default();
                if g.bool(0.3) {
                    opts.max_eta = g.range(0.4, 0.6);
                }
                opts.inc_nonadd = !g.bool(0.5);
                ModelSpec { family: Family::SaftVRMie, pure, binary, seg: None, opts, source }
            }
            Pair::AssocSplit => {
                let fam = g.pick(&[
                    Family::PcSaft,
                    Family::PcSaftFunctional,
                    Family::EPcSaft,
                    Family::SaftVRMie,
                    Family::GcPcSaft,
                    Family::GcPcSaftFunctional,
                ]);
                let mut s = gen_assoc_spec(g, fam);
                let assoc: Vec<usize> = (0..s.n()).filter(|&i| s.subset(&[i]).has_association()).collect();
                comp = if assoc.is_empty() { 0 } else { assoc[g.index(assoc.len())] };
                split = g.range(0.02, 0.98);
                if matches!(fam, Family::EPcSaft) {
                    strip_polar(&mut s);
                }
                s
            }
            Pair::AssocForced => gen_assoc_spec(g, Family::PcSaft),
            Pair::HomoGc => gen_homo_gc(g),
            Pair::PengRobinson => {
                gen_model(g, &GenCfg { families: vec![Family::PengRobinson], min_comp: 1, max_comp: 3 })
            }
        };
        let state = gen_state(g, spec.n());
        Case { pair, spec, state, ig, comp, split }
    }
}

/// A spec of `fam` with at least one associating component (1-2 components).
fn gen_assoc_spec(g: &mut Gen, fam: Family) -> ModelSpec {
    let n = 1 + g.index(2);
    let opts = {
        let mut o = Opts::default();
        if g.bool(0.3) {
            o.max_eta = g.range(0.4, 0.6);
        }
        if g.bool(0.3) {
            o.max_iter_cross_assoc = g.int(50, 200) as usize;
            o.tol_cross_assoc = g.log_range(1e-12, 1e-10);
        }
        if matches!(fam, Family::PcSaftFunctional | Family::GcPcSaftFunctional) {
            o.fmt = g.index(3) as u8;
        }
        o
    };
    match fam {
        Family::GcPcSaft | Family::GcPcSaftFunctional => {
            // without the binary group-group k_ij table: those k_ij act between groups of *different*
            // components only (model definition), so (A,A) is not the same fluid as A there
            let (sf, bf) = g.pick(&GC_HETERO_TABLES[..2]);
            let assoc: Vec<&Value> = POOLS
                .gc_substances
                .iter()
                .filter(|r| r["segments"].as_array().unwrap().iter().any(|s| s == "OH" || s == "NH2"))
                .collect();
            let mut pure = vec![(*g.pick(&assoc)).clone()];
            if n == 2 {
                pure.push(POOLS.gc_substances[g.index(POOLS.gc_substances.len())].clone());
            }
            ModelSpec {
                family: fam,
                pure,
                binary: vec![],
                seg: Some((sf.to_string(), bf.map(|s| s.to_string()))),
                opts,
                source: format!("gc:{sf}"),
            }
        }
        Family::SaftVRMie => {
            let mut pure = vec![];
            let mut source = String::new();
            for k in 0..n {
                if g.bool(0.5) {
                    source = "shipped:lafitte2013".into();
                    let pool: Vec<&Value> = POOLS
                        .vrmie
                        .iter()
                        .filter(|r| k > 0 || r["model_record"].get("rc_ab").is_some())
                        .collect();
                    pure.push((*g.pick(&pool)).clone());
                } else {
                    source = "random".into();
                    let mut mr = json!({"m": g.range(1.0, 4.0), "sigma": g.range(2.8, 4.8), "epsilon_k": g.range(100.0, 450.0),
                        "lr": g.range(8.0, 30.0), "la": 6.0});
                    if k == 0 || g.bool(0.5) {
                        mr["rc_ab"] = json!(g.range(0.3, 0.45));
                        mr["epsilon_k_ab"] = json!(g.range(1500.0, 3000.0));
                        let (na, nb) = [(1.0, 1.0), (2.0, 1.0), (2.0, 2.0)][g.index(3)];
                        mr["na"] = json!(na);
                        mr["nb"] = json!(nb);
                    }
                    pure.push(json!({"identifier": {"name": format!("comp{k}"), "cas": format!("{}-00-{k}", 100 + k)},
                        "molarweight": g.range(16.0, 200.0), "model_record": mr}));
                }
            }
            let mut binary = vec![];
            if n == 2 && g.bool(0.6) {
                binary.push((0, 1, json!({"k_ij": g.range(-0.1, 0.1)})));
            }
            ModelSpec { family: fam, pure, binary, seg: None, opts, source }
        }
        _ => {
            // PC-SAFT records (also used for ePC-SAFT: only records with kappa_ab AND epsilon_k_ab)
            let mut pure = vec![];
            let mut source = String::new();
            for k in 0..n {
                if g.bool(0.4) {
                    source = "shipped".into();
                    // gross2002 (2B), esper2023 (many schemes)
                    let (_, recs) = &POOLS.pcsaft[[1usize, 8][g.index(2)]];
                    let pool: Vec<&Value> = recs
                        .iter()
                        .filter(|r| {
                            let m = &r["model_record"];
                            let full = m.get("kappa_ab").is_some() && m.get("epsilon_k_ab").is_some();
                            let none = m.get("kappa_ab").is_none() && m.get("epsilon_k_ab").is_none();
                            if k == 0 {
                                full && m["na"].as_f64().unwrap_or(0.0) > 0.0 && m["nb"].as_f64().unwrap_or(0.0) > 0.0
                            } else {
                                full || none
                            }
                        })
                        .collect();
                    pure.push((*g.pick(&pool)).clone());
                } else {
                    source = "random".into();
                    let mut mr = json!({"m": g.range(1.0, 6.0), "sigma": g.range(2.5, 4.5), "epsilon_k": g.range(150.0, 400.0)});
                    if k == 0 || g.bool(0.5) {
                        mr["kappa_ab"] = json!(g.log_range(1e-3, 0.2));
                        mr["epsilon_k_ab"] = json!(g.range(1000.0, 3500.0));
                        let (na, nb, nc) =
                            [(1.0, 1.0, 0.0), (2.0, 1.0, 0.0), (2.0, 2.0, 0.0), (0.0, 0.0, 1.0), (1.0, 1.0, 1.0)][g.index(5)];
                        mr["na"] = json!(na);
                        mr["nb"] = json!(nb);
                        mr["nc"] = json!(nc);
                    }
                    if fam != Family::EPcSaft && g.bool(0.2) {
                        mr["mu"] = json!(g.range(0.5, 3.0));
                    }
                    pure.push(json!({"identifier": {"name": format!("comp{k}"), "cas": format!("{}-00-{k}", 100 + k)},
                        "molarweight": g.range(16.0, 200.0), "model_record": mr}));
                }
            }
            let mut binary = vec![];
            if n == 2 && g.bool(0.6) {
                let k = g.range(-0.1, 0.1);
                binary.push((0, 1, if fam == Family::EPcSaft { json!({"k_ij": [k, 0.0, 0.0, 0.0]}) } else { json!({"k_ij": k}) }));
            }
            ModelSpec { family: fam, pure, binary, seg: None, opts, source }
        }
    }
}

const HOMO_TABLES: [(&str, Option<&str>); 4] = [
    ("sauer2014_homo.json", None),
    ("loetgeringlin2015_homo.json", None),
    ("rehner2023_homo.json", None),
    ("rehner2023_homo.json", Some("rehner2023_homo_binary.json")),
];

fn gen_homo_gc(g: &mut Gen) -> ModelSpec {
    let (sf, bf) = g.pick(&HOMO_TABLES);
    let n = 1 + g.index(3);
    let names: Vec<String> = load_json(&format!("pcsaft/{sf}"))
        .iter()
        .map(|r| r["identifier"].as_str().unwrap().to_string())
        .collect();
    let mut pure = vec![];
    let mut source = format!("homo:{sf}{}", if bf.is_some() { "+binary" } else { "" });
    for k in 0..n {
        if g.bool(0.6) {
            pure.push(POOLS.gc_substances[g.index(POOLS.gc_substances.len())].clone());
        } else {
            // random chemical record: 1-8 segments, non-polar groups freely, at most `npol` polar /
            // associating groups (two of them => from_segments must reject the record)
            source = format!("{source}+random");
            let nseg = 1 + g.index(8);
            let npol = g.index(3).min(nseg);
            let mut segs: Vec<String> = vec![];
            for s in 0..nseg {
                let name = if s < npol {
                    names[14 + g.index(names.len() - 14)].clone()
                } else {
                    // ">C<" (index 3) has negative m: allow it once per molecule only
                    let i = g.index(14);
                    if i == 3 && segs.iter().any(|x| x == ">C<") {
                        names[1].clone()
                    } else {
                        names[i].clone()
                    }
                };
                segs.push(name);
            }
            // the '>C<' group has m = -0.67: keep the molecule's segment number above 0.5
            let table = load_json_cached(sf);
            let m_tot: f64 = segs
                .iter()
                .map(|s| table.iter().find(|r| r["identifier"] == s.as_str()).map_or(0.0, |r| r["model_record"]["m"].as_f64().unwrap()))
                .sum();
            if m_tot < 0.5 {
                for s in segs.iter_mut() {
                    if s == ">C<" {
                        *s = names[1].clone();
                    }
                }
            }
            pure.push(json!({"identifier": {"name": format!("rnd{k}"), "cas": format!("{}-11-{k}", 200 + k)}, "segments": segs}));
        }
    }
    ModelSpec {
        family: Family::PcSaft,
        pure,
        binary: vec![],
        seg: Some((sf.to_string(), bf.map(|s| s.to_string()))),
        opts: Opts::default(),
        source,
    }
}

// ---------------------------------------------------------------------------------------
// Reference implementation of the homosegmented group-contribution combining rules
// (Sauer et al. 2014, eqs. for m, sigma, epsilon; documented in src/pcsaft/parameters.rs and
// feos-core/src/parameter/mod.rs):
//   m = sum_a n_a m_a ; m sigma^3 = sum_a n_a m_a sigma_a^3 ; m eps = sum_a n_a m_a eps_a ;
//   MW = sum_a n_a MW_a ; mu, Q, kappa_ab, eps_ab, na, nb, nc: those of the single polar /
//   associating group (more than one such group is rejected) ;
//   k_ij = sum_ab n_a n_b k_ab / sum_ab n_a n_b over group a of molecule i and b of molecule j.
// ---------------------------------------------------------------------------------------
struct HomoRef {
    pure: Vec<Value>,
    binary: Vec<(usize, usize, Value)>,
    /// number of polar/associating groups per molecule
    npolar: Vec<usize>,
}

fn homo_reference(spec: &ModelSpec) -> Result<HomoRef, String> {
    let (sf, bf) = spec.seg.clone().ok_or("no segment file")?;
    let segs = load_json(&format!("pcsaft/{sf}"));
    let find = |name: &str| segs.iter().find(|s| s["identifier"].as_str() == Some(name));
    let mut pure = vec![];
    let mut npolar = vec![];
    let mut counts: Vec<Vec<(String, f64)>> = vec![];
    for c in &spec.pure {
        let names: Vec<String> = c["segments"].as_array().unwrap().iter().map(|s| s.as_str().unwrap().to_string()).collect();
        // counts in order of first appearance
        let mut cnt: Vec<(String, f64)> = vec![];
        for nm in &names {
            match cnt.iter_mut().find(|(k, _)| k == nm) {
                Some(e) => e.1 += 1.0,
                None => cnt.push((nm.clone(), 1.0)),
            }
        }
        let (mut m, mut ms3, mut me, mut mw) = (0.0, 0.0, 0.0, 0.0);
        let mut polar = 0usize;
        let mut mr = json!({});
        for (nm, k) in &cnt {
            let s = find(nm).ok_or(format!("segment {nm} not in table"))?;
            let r = &s["model_record"];
            let (mi, si, ei) = (r["m"].as_f64().unwrap(), r["sigma"].as_f64().unwrap(), r["epsilon_k"].as_f64().unwrap());
            m += k * mi;
            ms3 += k * mi * si.powi(3);
            me += k * mi * ei;
            mw += k * s["molarweight"].as_f64().unwrap();
            let nsites = r["na"].as_f64().unwrap_or(0.0) + r["nb"].as_f64().unwrap_or(0.0) + r["nc"].as_f64().unwrap_or(0.0);
            let is_polar = r.get("mu").is_some() || r.get("q").is_some() || (r.get("kappa_ab").is_some() && nsites > 0.0);
            if is_polar {
                polar += *k as usize;
                for key in ["mu", "q", "kappa_ab", "epsilon_k_ab", "na", "nb", "nc"] {
                    if let Some(v) = r.get(key) {
                        mr[key] = v.clone();
                    }
                }
            }
        }
        mr["m"] = json!(m);
        mr["sigma"] = json!((ms3 / m).cbrt());
        mr["epsilon_k"] = json!(me / m);
        pure.push(json!({"identifier": c["identifier"], "molarweight": mw, "model_record": mr}));
        npolar.push(polar);
        counts.push(cnt);
    }
    let mut binary = vec![];
    if let Some(bf) = bf {
        let br = load_json(&format!("pcsaft/{bf}"));
        let kab = |a: &str, b: &str| -> f64 {
            br.iter()
                .find(|r| {
                    let (i1, i2) = (r["id1"].as_str().unwrap(), r["id2"].as_str().unwrap());
                    (i1 == a && i2 == b) || (i1 == b && i2 == a)
                })
                .map(|r| r["model_record"].as_f64().unwrap())
                .unwrap_or(0.0)
        };
        for i in 0..counts.len() {
            for j in i + 1..counts.len() {
                let (mut num, mut den) = (0.0, 0.0);
                for (a, na) in &counts[i] {
                    for (b, nb) in &counts[j] {
                        num += na * nb * kab(a, b);
                        den += na * nb;
                    }
                }
                binary.push((i, j, json!({"k_ij": num / den})));
            }
        }
    }
    Ok(HomoRef { pure, binary, npolar })
}

fn homo_left_params(spec: &ModelSpec) -> Result<PcSaftParameters, String> {
    let (sf, bf) = spec.seg.clone().ok_or("no segment file")?;
    let segs: Vec<SegmentRecord<PcSaftRecord>> =
        SegmentRecord::from_json(params_dir().join("pcsaft").join(&sf)).map_err(|e| e.to_string())?;
    let bin: Option<Vec<BinaryRecord<String, f64>>> = match bf {
        Some(b) => Some(
            load_json(&format!("pcsaft/{b}"))
                .iter()
                .map(|v| serde_json::from_value(v.clone()).map_err(|e| e.to_string()))
                .collect::<Result<Vec<_>, _>>()?,
        ),
        None => None,
    };
    let chem: Vec<ChemicalRecord> = spec.chemical_records()?;
    PcSaftParameters::from_segments(chem, segs, bin).map_err(|e| format!("from_segments: {e}"))
}

// ---------------------------------------------------------------------------------------
// Known-finding signatures (predicates over the case; enabled by known_findings.json)
// ---------------------------------------------------------------------------------------
pub(crate) struct Known {
    pub id: &'static str,
    /// contributions removed from the left / right side when the rest is asserted
    pub left_excl: &'static [&'static str],
    pub right_excl: &'static [&'static str],
    /// build the right side with DQVariants::DQ35 instead of the requested variant
    pub right_dq35: bool,
}

const EOS_ATT: [&str; 4] = ["Dispersion", "Dipole", "Quadrupole", "DipoleQuadrupole"];

/// does the PC-SAFT functional take the mixture code path (FMTContribution + ChainFunctional +
/// AttractiveFunctional + Association) rather than the pure-component functionals?
pub(crate) fn pcsaft_mixture_path(spec: &ModelSpec) -> bool {
    spec.family == Family::PcSaftFunctional && (spec.n() > 1 || spec.opts.fmt == 1)
}

/// Association sites as `AssociationParameters::new` builds them: (index, sigma, na, nb, nc) of
/// every component (PC-SAFT) or segment (heterosegmented gc-PC-SAFT functional) with sites.
pub(crate) fn assoc_sites(spec: &ModelSpec) -> Vec<(usize, f64, f64, f64, f64)> {
    let mut v = vec![];
    match spec.family {
        Family::GcPcSaftFunctional => {
            let Some((sf, _)) = &spec.seg else { return v };
            let table = load_json_cached(sf);
            let mut k = 0;
            for p in &spec.pure {
                for s in p["segments"].as_array().into_iter().flatten() {
                    if let Some(r) = table.iter().find(|r| r["identifier"] == *s) {
                        let m = &r["model_record"];
                        let f = |key: &str| m[key].as_f64().unwrap_or(0.0);
                        if f("na") + f("nb") + f("nc") > 0.0 {
                            v.push((k, f("sigma"), f("na"), f("nb"), f("nc")));
                        }
                    }
                    k += 1;
                }
            }
        }
        _ => {
            for (k, p) in spec.pure.iter().enumerate() {
                let f = |key: &str| mr_f64(p, key);
                if f("na") + f("nb") + f("nc") > 0.0 {
                    v.push((k, f("sigma"), f("na"), f("nb"), f("nc")));
                }
            }
        }
    }
    v
}

fn sigma0(spec: &ModelSpec) -> f64 {
    match spec.family {
        Family::GcPcSaftFunctional => {
            let Some((sf, _)) = &spec.seg else { return 0.0 };
            let table = load_json_cached(sf);
            let first = &spec.pure[0]["segments"][0];
            table
                .iter()
                .find(|r| r["identifier"] == *first)
                .map(|r| r["model_record"]["sigma"].as_f64().unwrap_or(0.0))
                .unwrap_or(0.0)
        }
        _ => mr_f64(&spec.pure[0], "sigma"),
    }
}

/// (number of A-site types x number of B-site types, number of C-site types): selects the closed
/// form ((1,0), (0,1), (1,1)) or the iterative solver in `Association`.
pub(crate) fn assoc_path(sites: &[(usize, f64, f64, f64, f64)]) -> (usize, usize) {
    let a = sites.iter().filter(|s| s.2 > 0.0).count();
    let b = sites.iter().filter(|s| s.3 > 0.0).count();
    let c = sites.iter().filter(|s| s.4 > 0.0).count();
    (a * b, c)
}

pub(crate) fn dft_signatures(spec: &ModelSpec) -> Vec<Known> {
    let mut k = vec![];
    let mixture = pcsaft_mixture_path(spec);
    // F8: pure-component PC-SAFT functional on the WhiteBear / AntiSymWhiteBear path
    // (`PureAttFunctional`) for a record with both a dipole and a quadrupole moment.
    if spec.family == Family::PcSaftFunctional
        && !mixture
        && mr_f64(&spec.pure[0], "mu") != 0.0
        && mr_f64(&spec.pure[0], "q") != 0.0
    {
        k.push(Known {
            id: "C08/pcsaft-functional-pure-dipole-quadrupole",
            left_excl: &[],
            right_excl: &["DipoleQuadrupole"],
            right_dq35: false,
        });
    }
    // pure-component path adds the chain functional only for m > 1 (mixture path and equation of
    // state: m != 1) but the ideal-chain term (m - 1) rho (ln rho - 1) always
    if spec.family == Family::PcSaftFunctional && !mixture && mr_f64(&spec.pure[0], "m") < 1.0 {
        k.push(Known {
            id: "C08/pcsaft-functional-pure-chain-m-below-1",
            left_excl: &["Ideal chain", "Pure chain"],
            right_excl: &["Hard Chain"],
            right_dq35: false,
        });
    }
    // gc-PC-SAFT functional has no dipole contribution: a component with a dipolar group.
    if spec.family == Family::GcPcSaftFunctional {
        if let Some((sf, _)) = &spec.seg {
            let table = load_json_cached(sf);
            let dipolar = spec.pure.iter().any(|p| {
                p["segments"].as_array().map_or(false, |a| {
                    a.iter().any(|s| {
                        table
                            .iter()
                            .any(|r| r["identifier"] == *s && r["model_record"]["mu"].as_f64().unwrap_or(0.0) != 0.0)
                    })
                })
            });
            if dipolar {
                k.push(Known {
                    id: "C08/gc-pcsaft-functional-no-dipole",
                    left_excl: &[],
                    right_excl: &["Dipole"],
                    right_dq35: false,
                });
            }
        }
    }
    if mixture {
        let dip: Vec<f64> = spec.pure.iter().filter(|p| mr_f64(p, "mu") != 0.0).map(|p| mr_f64(p, "sigma")).collect();
        let quad: Vec<f64> = spec.pure.iter().filter(|p| mr_f64(p, "q") != 0.0).map(|p| mr_f64(p, "sigma")).collect();
        // the functional implements DQ35 only: `PcSaftOptions::dq_variant` is ignored
        if spec.opts.dq44 && dip.iter().any(|a| quad.iter().any(|b| a != b)) {
            k.push(Known {
                id: "C08/pcsaft-functional-ignores-dq-variant",
                left_excl: &[],
                right_excl: &[],
                right_dq35: true,
            });
        }
        // quadrupole-quadrupole pair term between two different components
        if quad.len() >= 2 {
            k.push(Known {
                id: "C08/pcsaft-functional-quadrupole-cross-term",
                left_excl: &["Attractive functional"],
                right_excl: &EOS_ATT,
                right_dq35: false,
            });
        }
    }
    // association as a functional contribution (src/association/dft.rs)
    if mixture || spec.family == Family::GcPcSaftFunctional {
        let sites = assoc_sites(spec);
        let (ab, c) = assoc_path(&sites);
        let s0 = sigma0(spec);
        match (ab, c) {
            (0, 0) => {}
            (1, 0) | (0, 1) | (1, 1) => {
                // closed form evaluates association_strength(T, 0, 0, ..): wrong sigma unless the
                // associating component / segment has index 0 (or the same sigma as index 0)
                let mut wrong = false;
                if ab == 1 {
                    let sa = sites.iter().find(|s| s.2 > 0.0).unwrap();
                    let sb = sites.iter().find(|s| s.3 > 0.0).unwrap();
                    wrong |= sa.1 * sb.1 != s0 * s0;
                }
                if c == 1 {
                    let sc = sites.iter().find(|s| s.4 > 0.0).unwrap();
                    wrong |= sc.1 != s0;
                }
                if wrong {
                    k.push(Known {
                        id: "C08/association-functional-strength-of-component-0",
                        left_excl: &["Association"],
                        right_excl: &["Association"],
                        right_dq35: false,
                    });
                }
            }
            (_, c) if c > 0 => {
                // iterative path of the functional contribution leaves the C sites out
                k.push(Known {
                    id: "C08/association-functional-drops-c-sites",
                    left_excl: &["Association"],
                    right_excl: &["Association"],
                    right_dq35: false,
                });
            }
            _ => {}
        }
    }
    k
}

static JSON_CACHE: Mutex<BTreeMap<String, Arc<Vec<Value>>>> = Mutex::new(BTreeMap::new());
pub(crate) fn load_json_cached(file: &str) -> Arc<Vec<Value>> {
    let mut c = JSON_CACHE.lock().unwrap();
    c.entry(file.to_string())
        .or_insert_with(|| Arc::new(load_json(&format!("pcsaft/{file}"))))
        .clone()
}


/// Conditioning of the association term: an upper estimate of max_i rho_i Delta_ii (site density x
/// association strength). The closed-form monomer fractions 2/(sqrt(..) + ..) and the Newton
/// solver lose ~eps x rho Delta relative accuracy when association is strong (X -> 0); measured
/// 2.4e-8 relative difference of dS_assoc between functional and equation of state at rho Delta = 2e8.
pub(crate) fn assoc_stiffness(spec: &ModelSpec, t: f64, rho: f64, x: &[f64], eta: f64) -> f64 {
    let eta = eta.clamp(0.0, 0.7);
    let g = (1.0 - 0.5 * eta) / (1.0 - eta).powi(3);
    let mut worst: f64 = 0.0;
    let mut add = |comp: usize, sigma: f64, kappa: f64, eps_ab: f64, nsites: f64| {
        let xi = if comp == usize::MAX { 1.0 } else { x[comp.min(x.len() - 1)] };
        let d = ((eps_ab / t).exp() - 1.0) * kappa * sigma.powi(3) * g * rho * xi * nsites;
        if d.is_finite() {
            worst = worst.max(d);
        } else {
            worst = f64::INFINITY;
        }
    };
    match spec.family {
        Family::GcPcSaft | Family::GcPcSaftFunctional => {
            if let Some((sf, _)) = &spec.seg {
                let table = load_json_cached(sf);
                for (c, p) in spec.pure.iter().enumerate() {
                    for s in p["segments"].as_array().into_iter().flatten() {
                        if let Some(r) = table.iter().find(|r| r["identifier"] == *s) {
                            let m = &r["model_record"];
                            let f = |k: &str| m[k].as_f64().unwrap_or(0.0);
                            let ns = f("na") + f("nb") + f("nc");
                            if ns > 0.0 {
                                add(c, f("sigma"), f("kappa_ab"), f("epsilon_k_ab").max(2500.0), ns);
                            }
                        }
                    }
                }
            }
        }
        _ => {
            let emax = spec.pure.iter().map(|p| mr_f64(p, "epsilon_k_ab")).fold(0.0, f64::max);
            for (c, p) in spec.pure.iter().enumerate() {
                let ns = mr_f64(p, "na") + mr_f64(p, "nb") + mr_f64(p, "nc");
                if ns > 0.0 {
                    // cross association can pair the sites of this component with a stronger partner
                    let kappa = if p["model_record"].get("rc_ab").is_some() { 0.1 } else { mr_f64(p, "kappa_ab") };
                    add(c, mr_f64(p, "sigma"), kappa, emax, ns);
                }
            }
            for (_, _, b) in &spec.binary {
                if let (Some(k), Some(e)) = (b["kappa_ab"].as_f64(), b["epsilon_k_ab"].as_f64()) {
                    // binary association override: strength of the pair, total density as bound
                    add(usize::MAX, 4.5, k, e, 2.0);
                }
            }
        }
    }
    worst
}

/// tolerance of a pair whose members both evaluate an association term
pub(crate) fn with_stiffness(base: Tol, stiffness: f64) -> Tol {
    Tol { rel: base.rel + 1e-14 * stiffness, round: base.round }
}

// ---------------------------------------------------------------------------------------
// Check
// ---------------------------------------------------------------------------------------
pub(crate) fn density_class(f_eta: f64) -> &'static str {
    if f_eta < 1e-4 {
        "eta<1e-4"
    } else if f_eta < 1e-2 {
        "eta 1e-4..1e-2"
    } else if f_eta < 0.2 {
        "eta 1e-2..0.2"
    } else {
        "dense"
    }
}

struct PropsOf<'a> {
    inp: &'a Inputs,
    ig: Option<IdealGasModel>,
}
impl Visitor for PropsOf<'_> {
    /// (bare, wrapped in EquationOfState)
    type Out = (Result<Props, String>, Option<Result<Props, String>>);
    fn visit<E: Residual + 'static>(self, eos: Arc<E>) -> Self::Out {
        let bare = props(&eos, self.inp, &[]);
        let wrapped = self.ig.map(|ig| {
            let full = Arc::new(EquationOfState::new(Arc::new(ig), eos.clone()));
            props(&full, self.inp, &[])
        });
        (bare, wrapped)
    }
}

macro_rules! try_discard {
    ($obs:expr, $what:expr, $e:expr) => {
        match $e {
            Ok(v) => v,
            Err(e) => {
                let e: String = e;
                $obs.discard(format!("{}:{}", $what, e.chars().take(48).collect::<String>()));
                return;
            }
        }
    };
}

pub fn check(case: &Case, obs: &mut Obs) {
    let spec = &case.spec;
    let pair = case.pair;
    obs.class(format!("{pair:?}"));
    obs.class(format!("{pair:?}/n={}", spec.n()));
    obs.class(format!("{pair:?}/{}", density_class(case.state.f_eta)));
    let key = format!("{pair:?}");
    match pair {
        Pair::DftBulk => check_dft(case, obs, &key),
        Pair::Wrapper => check_wrapper(case, obs, &key),
        Pair::EpcIonFree => check_epc(case, obs, &key),
        Pair::VrqVsVrMie => check_vrq(case, obs, &key),
        Pair::AssocSplit => check_split(case, obs, &key),
        Pair::AssocForced => check_forced(case, obs, &key),
        Pair::HomoGc => check_homo(case, obs, &key),
        Pair::PengRobinson => check_pr(case, obs, &key),
    }
}

pub(crate) fn feature_classes(obs: &mut Obs, key: &str, spec: &ModelSpec, p: &Props) {
    for (name, v) in &p.contributions {
        if *v > 0.0 {
            obs.class(format!("{key}/contribution:{name}"));
        }
    }
    if spec.has_association() {
        obs.class(format!("{key}/assoc"));
    }
    if spec.has_polar() {
        obs.class(format!("{key}/polar"));
    }
}

fn check_dft(case: &Case, obs: &mut Obs, key: &str) {
    let spec = &case.spec;
    obs.class(format!("{key}/{:?}/fmt{}", spec.family, spec.opts.fmt));
    let left = try_discard!(obs, "build", spec.build());
    let inp = try_discard!(obs, "inputs", state_inputs(spec, &left, &case.state));
    let l = try_discard!(obs, "left state", props(&left, &inp, &[]));
    if !l.a.0.is_finite() {
        obs.discard(format!("non-finite A_res:{:?}", spec.family));
        return;
    }
    let map: Vec<usize> = (0..spec.n()).collect();
    // right side: the equation of state of the same records and options
    if spec.family == Family::FmtFunctional {
        let hs = Arc::new(HsEos::new(try_discard!(obs, "sigma", spec.fmt_sigma())));
        let r = try_discard!(obs, "right state", props(&hs, &inp, &[]));
        feature_classes(obs, key, spec, &r);
        if compare(obs, key, &l, &r, &map, TOL_IMPL, 0.0, 0.0) >= 5 {
            obs.nontrivial();
        }
        return;
    }
    let mut rs = spec.clone();
    rs.family = eos_family(spec.family);
    let right = try_discard!(obs, "build right", rs.build());
    let r = try_discard!(obs, "right state", props(&right, &inp, &[]));
    if !r.a.0.is_finite() && spec.has_association() {
        obs.discard(format!("non-finite A_res of the equation of state (cross-association solver not converged):{:?}", rs.family));
        return;
    }
    feature_classes(obs, key, spec, &r);
    if pcsaft_mixture_path(spec) {
        obs.class(format!("{key}/PcSaftFunctional mixture path"));
    } else if spec.family == Family::PcSaftFunctional {
        obs.class(format!("{key}/PcSaftFunctional pure path"));
    }
    // only findings listed as open may mask: a fixed entry suppresses nothing
    let mut sigs = dft_signatures(spec);
    sigs.retain(|k| crate::engine::known_open(k.id));
    let xs: Vec<f64> = inp.2.to_reduced().iter().map(|n| n / l.ntot).collect();
    let stiff = assoc_stiffness(spec, l.t, l.ntot / l.vol, &xs, case.state.f_eta * spec.opts.max_eta);
    let tol_dft = with_stiffness(TOL_IMPL, stiff);
    if stiff > 1e4 {
        obs.class(format!("{key}/strong association: rho Delta > 1e4 (tolerance widened)"));
    }
    let mut probe = Obs::default();
    let pkey = if sigs.is_empty() { key.to_string() } else { format!("{key}(probe)") };
    let sharp = compare(&mut probe, &pkey, &l, &r, &map, tol_dft, 0.0, 0.0);
    if probe.fails.is_empty() || sigs.is_empty() {
        obs.comparisons += probe.comparisons;
        for f in probe.fails {
            obs.fail(f);
        }
        if sharp >= 5 {
            obs.nontrivial();
        }
        return;
    }
    // the pair disagrees and the case matches at least one known-finding signature: attribute the
    // failure, then assert the rest of the model (references without the affected contributions)
    let msg = probe.fails[0].clone();
    let reference = |ks: &[&Known]| -> Result<(Props, Props), String> {
        let lx: Vec<&str> = ks.iter().flat_map(|k| k.left_excl.iter().copied()).collect();
        let rx: Vec<&str> = ks.iter().flat_map(|k| k.right_excl.iter().copied()).collect();
        let rr = if ks.iter().any(|k| k.right_dq35) {
            let mut rs35 = rs.clone();
            rs35.opts.dq44 = false;
            rs35.build()?
        } else {
            right.clone()
        };
        Ok((props(&left, &inp, &lx)?, props(&rr, &inp, &rx)?))
    };
    let mut attributed = false;
    for k in &sigs {
        let (lx, rx) = try_discard!(obs, "reference", reference(&[k]));
        let mut o = Obs::default();
        compare(&mut o, &format!("{key}(attribution)"), &lx, &rx, &map, tol_dft, 0.0, 0.0);
        if o.fails.is_empty() {
            obs.class(format!("{key}/signature:{}", k.id));
            obs.known_or_fail(k.id, msg.clone());
            attributed = true;
            break;
        }
    }
    if !attributed {
        for k in &sigs {
            obs.class(format!("{key}/signature:{}", k.id));
            obs.known_or_fail(k.id, msg.clone());
        }
    }
    let all: Vec<&Known> = sigs.iter().collect();
    let (lx, rx) = try_discard!(obs, "reference", reference(&all));
    let sharp = compare(obs, &format!("{key}(masked)"), &lx, &rx, &map, tol_dft, 0.0, 0.0);
    if sharp >= 5 {
        obs.nontrivial();
    }
}

fn check_wrapper(case: &Case, obs: &mut Obs, key: &str) {
    let spec = &case.spec;
    obs.class(format!("{key}/{:?}", spec.family));
    let en = try_discard!(obs, "build", spec.build());
    let inp = try_discard!(obs, "inputs", state_inputs(spec, &en, &case.state));
    let e = try_discard!(obs, "enum state", props(&en, &inp, &[]));
    if !e.a.0.is_finite() {
        obs.discard(format!("non-finite A_res:{:?}", spec.family));
        return;
    }
    let ig = try_discard!(obs, "ig", dippr_model(&case.ig));
    let (bare, wrapped) = try_discard!(obs, "typed build", with_typed(spec, PropsOf { inp: &inp, ig: Some(ig) }));
    let bare = try_discard!(obs, "bare state", bare);
    let wrapped = try_discard!(obs, "wrapped state", wrapped.unwrap());
    let map: Vec<usize> = (0..spec.n()).collect();
    let tol = if matches!(spec.family, Family::GcPcSaft | Family::GcPcSaftFunctional) { TOL_GC } else { TOL_SAME };
    let s1 = compare(obs, &format!("{key}/enum"), &e, &bare, &map, tol, 0.0, 0.0);
    let s2 = compare(obs, &format!("{key}/EquationOfState"), &wrapped, &bare, &map, tol, 0.0, 0.0);
    // full model wrapped in the enum inside EquationOfState as well
    let ig2 = try_discard!(obs, "ig", dippr_model(&case.ig));
    let both = full_model(ig2, en.clone());
    let b = try_discard!(obs, "enum+EquationOfState state", props(&both, &inp, &[]));
    compare(obs, &format!("{key}/enum-in-EquationOfState"), &b, &bare, &map, tol, 0.0, 0.0);
    if s1 >= 5 && s2 >= 5 {
        obs.nontrivial();
    }
}

/// PC-SAFT spec -> ePC-SAFT spec of the same (non-polar, ion-free) records
fn to_epc(spec: &ModelSpec) -> ModelSpec {
    let mut s = spec.clone();
    s.family = Family::EPcSaft;
    s.binary = spec
        .binary
        .iter()
        .map(|(i, j, b)| {
            let mut e = b.clone();
            e["k_ij"] = json!([b["k_ij"].as_f64().unwrap_or(0.0), 0.0, 0.0, 0.0]);
            (*i, *j, e)
        })
        .collect();
    s
}

/// records that ePC-SAFT cannot express: association sites without both kappa_ab and epsilon_k_ab
fn epc_expressible(spec: &ModelSpec) -> bool {
    spec.pure.iter().all(|p| {
        let m = &p["model_record"];
        let sites = mr_f64(p, "na") + mr_f64(p, "nb") + mr_f64(p, "nc");
        let (k, e) = (m.get("kappa_ab").is_some(), m.get("epsilon_k_ab").is_some());
        (k && e) || (!k && !e && sites == 0.0)
    })
}

fn check_epc(case: &Case, obs: &mut Obs, key: &str) {
    let spec = &case.spec;
    if !epc_expressible(spec) {
        obs.discard("record with association sites but without kappa_ab/epsilon_k_ab (induced association): not expressible in ePC-SAFT");
        return;
    }
    obs.class(format!("{key}/{}", spec.source.split(':').next().unwrap()));
    let left = try_discard!(obs, "build", spec.build());
    let inp = try_discard!(obs, "inputs", state_inputs(spec, &left, &case.state));
    let l = try_discard!(obs, "left state", props(&left, &inp, &[]));
    let es = to_epc(spec);
    let right = try_discard!(obs, "build epc", es.build());
    let r = try_discard!(obs, "right state", props(&right, &inp, &[]));
    feature_classes(obs, key, spec, &l);
    if spec.binary.iter().any(|(_, _, b)| b["k_ij"].as_f64().unwrap_or(0.0) != 0.0) {
        obs.class(format!("{key}/k_ij"));
    }
    if spec.binary.iter().any(|(_, _, b)| b.get("kappa_ab").is_some()) {
        obs.class(format!("{key}/binary association override"));
    }
    let map: Vec<usize> = (0..spec.n()).collect();
    // The two models perform the same arithmetic up to 1-ulp differences (e.g. sigma^1.5 through
    // f64::powf vs the dual-number powf). With association these are amplified by the conditioning of
    // the monomer-fraction formulas (~eps x rho Delta, see assoc_stiffness) and, on the iterative
    // path, by a Newton iteration that stops one step earlier or later (solver tolerance).
    let xs: Vec<f64> = case.state.x.clone();
    let stiff = assoc_stiffness(spec, l.t, l.ntot / l.vol, &xs, case.state.f_eta * spec.opts.max_eta);
    if spec.has_association() {
        // exp(eps_AB/T) overflows or the Newton solver of one side needs one iteration more than
        // max_iter (reported as NaN): a failure to return a value, not an altered value
        let finite = |p: &Props| [p.a, p.p, p.s, p.dpdv, p.dpdt].iter().all(|q| q.0.is_finite() && q.1.is_finite());
        if !stiff.is_finite() || stiff > 1e12 || !finite(&l) || !finite(&r) {
            obs.discard("association strength overflows / cross-association solver not converged (non-finite value or scale)");
            return;
        }
    }
    let tol = if spec.has_association() {
        let t = with_stiffness(TOL_SAME, stiff);
        if spec.n_assoc_components() > 1 { Tol { rel: t.rel.max(TOL_ASSOC.rel), round: t.round } } else { t }
    } else {
        TOL_SAME
    };
    let sharp = compare(obs, key, &l, &r, &map, tol, 0.0, 0.0);
    if sharp >= 5 {
        obs.nontrivial();
    }
}

fn check_vrq(case: &Case, obs: &mut Obs, key: &str) {
    let spec = &case.spec; // SAFT-VR Mie, m = 1
    let left = try_discard!(obs, "build", spec.build());
    let inp = try_discard!(obs, "inputs", state_inputs(spec, &left, &case.state));
    let l = try_discard!(obs, "left state", props(&left, &inp, &[]));
    let mut qs = spec.clone();
    qs.family = Family::SaftVRQMie;
    for p in qs.pure.iter_mut() {
        p["model_record"]["fh"] = json!(0);
    }
    qs.binary = spec
        .binary
        .iter()
        .map(|(i, j, b)| (*i, *j, json!({"k_ij": b["k_ij"].as_f64().unwrap_or(0.0), "l_ij": 0.0})))
        .collect();
    let right = try_discard!(obs, "build vrq", qs.build());
    let r = try_discard!(obs, "right state", props(&right, &inp, &[]));
    obs.class(format!("{key}/{}", spec.source));
    if spec.n() > 1 {
        obs.class(format!("{key}/inc_nonadd={}", spec.opts.inc_nonadd));
    }
    let map: Vec<usize> = (0..spec.n()).collect();
    let sharp = compare(obs, key, &l, &r, &map, TOL_VRQ, 0.0, 0.0);
    if sharp >= 5 {
        obs.nontrivial();
    }
}
/// SAFT-VRQ Mie (FH0) and SAFT-VR Mie compute the Barker-Henderson diameter with different
/// quadratures (21-point Kronrod from a Newton-located lower limit vs 10-point Gauss-Legendre):
/// measured <= 1.5e-5 of the scale on T-derivatives, 7e-7 on beta A/N (see `calibration` in the evidence)
const TOL_VRQ: Tol = Tol { rel: 1e-3, round: 1e-12 };

/// spec with component `comp` duplicated (appended as last component)
pub(crate) fn split_spec(spec: &ModelSpec, comp: usize) -> ModelSpec {
    let mut s = spec.clone();
    let n = spec.n();
    s.pure.push(spec.pure[comp].clone());
    for (i, j, b) in &spec.binary {
        if *i == comp {
            // (comp, j) -> (j, n) with j < n: orientation flips
            let mut v = b.clone();
            if let Some(arr) = v.get("site_indices").and_then(|x| x.as_array()).cloned() {
                v["site_indices"] = json!([arr[1], arr[0]]);
            }
            s.binary.push((*j, n, v));
        } else if *j == comp {
            s.binary.push((*i, n, b.clone()));
        }
    }
    s
}

pub(crate) fn site_moles_fraction(spec: &ModelSpec) -> f64 {
    // upper bound of (number of association sites per molecule), used for the solver-tolerance atol
    spec.pure
        .iter()
        .map(|p| mr_f64(p, "na") + mr_f64(p, "nb") + mr_f64(p, "nc"))
        .fold(2.0, f64::max)
}

fn check_split(case: &Case, obs: &mut Obs, key: &str) {
    let spec = &case.spec;
    obs.class(format!("{key}/{:?}", spec.family));
    let n = spec.n();
    let comp = case.comp.min(n - 1);
    let left = try_discard!(obs, "build", spec.build());
    let inp = try_discard!(obs, "inputs", state_inputs(spec, &left, &case.state));
    let l = try_discard!(obs, "left state", props(&left, &inp, &[]));
    if !l.a.0.is_finite() {
        obs.discard(format!("non-finite A_res:{:?}", spec.family));
        return;
    }
    let rs = split_spec(spec, comp);
    let right = try_discard!(obs, "build split", rs.build());
    let nl = inp.2.to_reduced();
    let mut nr: Vec<f64> = nl.to_vec();
    nr.push(nl[comp] * (1.0 - case.split));
    nr[comp] = nl[comp] * case.split;
    let inp_r: Inputs = (inp.0, inp.1, Moles::from_reduced(Array1::from_vec(nr)));
    let r = try_discard!(obs, "right state", props(&right, &inp_r, &[]));
    if !r.a.0.is_finite() && spec.has_association() {
        // the iterative solver reports NotConverged as NaN (equation of state) - a failure to
        // return a value, not a disagreement of two returned values
        obs.discard(format!("non-finite A_res of the split model (cross-association solver not converged):{:?}", spec.family));
        return;
    }
    let mut map: Vec<usize> = (0..n).collect();
    map.push(comp);
    feature_classes(obs, key, spec, &l);
    // which solver does each side use? (one A-B pair and/or one C site => closed form)
    let assoc_c = |p: &Props| p.contributions.iter().find(|(n, _)| n.contains("ssociation")).map(|(_, v)| *v).unwrap_or(0.0);
    let a_assoc = assoc_c(&l);
    if a_assoc > 0.0 {
        let sites = |s: &ModelSpec| -> (usize, usize, usize) {
            let mut t = (0, 0, 0);
            for p in &s.pure {
                t.0 += (mr_f64(p, "na") > 0.0) as usize;
                t.1 += (mr_f64(p, "nb") > 0.0) as usize;
                t.2 += (mr_f64(p, "nc") > 0.0) as usize;
            }
            t
        };
        if !matches!(spec.family, Family::GcPcSaft | Family::GcPcSaftFunctional) {
            let (a, b, c) = sites(spec);
            let analytic = matches!((a * b, c), (1, 0) | (0, 1) | (1, 1));
            obs.class(format!("{key}/{}", if analytic { "closed form vs iterative" } else { "iterative vs iterative" }));
        }
    }
    // A itself carries the solver tolerance: |delta(beta A)| <= sum_sites N_site * |dX|, dX <~ tol
    let tol_solver = spec.opts.tol_cross_assoc.max(1e-10);
    let extra = if a_assoc > 0.0 { 100.0 * tol_solver * site_moles_fraction(spec) } else { 0.0 };
    let xs: Vec<f64> = nl.iter().map(|n| n / l.ntot).collect();
    let stiff = assoc_stiffness(spec, l.t, l.ntot / l.vol, &xs, case.state.f_eta * spec.opts.max_eta);
    let tol = if a_assoc > 0.0 { with_stiffness(TOL_ASSOC, stiff) } else { TOL_IMPL };
    let floor = if a_assoc > 0.0 { FLOOR_ASSOC * site_moles_fraction(spec) } else { 0.0 };
    // functionals: known findings of the association functional contribution apply to either side
    let mut sigs = dft_signatures(spec);
    sigs.extend(dft_signatures(&rs));
    sigs.retain(|k| k.id.starts_with("C08/association-functional") && crate::engine::known_open(k.id));
    let mut probe = Obs::default();
    let pkey = if sigs.is_empty() { key.to_string() } else { format!("{key}(probe)") };
    let sharp = compare(&mut probe, &pkey, &l, &r, &map, tol, extra, floor);
    if probe.fails.is_empty() || sigs.is_empty() {
        obs.comparisons += probe.comparisons;
        for f in probe.fails {
            obs.fail(f);
        }
        if sharp >= 5 && a_assoc > 1e3 * (extra + ATOL_A) {
            obs.nontrivial();
        }
        return;
    }
    for k in &sigs {
        obs.class(format!("{key}/signature:{}", k.id));
        obs.known_or_fail(k.id, probe.fails[0].clone());
    }
    // the pure-component PC-SAFT functional evaluates association inside "Pure FMT+association"
    const ASSOC_FMT: [&str; 5] =
        ["Association", "Pure FMT+association", "FMT functional (WB)", "FMT functional (KR)", "FMT functional (AntiSymWB)"];
    let lx = try_discard!(obs, "left state", props(&left, &inp, &ASSOC_FMT));
    let rx = try_discard!(obs, "right state", props(&right, &inp_r, &ASSOC_FMT));
    compare(obs, &format!("{key}(masked)"), &lx, &rx, &map, TOL_IMPL, 0.0, 0.0);
    let _ = stiff;
}

fn check_forced(case: &Case, obs: &mut Obs, key: &str) {
    let spec = &case.spec;
    let model = try_discard!(obs, "build", spec.build());
    let inp = try_discard!(obs, "inputs", state_inputs(spec, &model, &case.state));
    let o = &spec.opts;
    let pl = Arc::new(try_discard!(obs, "params", spec.pcsaft_params()));
    let pr = Arc::new(try_discard!(obs, "params", spec.pcsaft_params()));
    let left = Arc::new(AssocOnly::new(pl, false, o.max_iter_cross_assoc, o.tol_cross_assoc));
    let right = Arc::new(AssocOnly::new(pr, true, o.max_iter_cross_assoc, o.tol_cross_assoc));
    let l = try_discard!(obs, "left state", props(&left, &inp, &[]));
    let r = try_discard!(obs, "right state", props(&right, &inp, &[]));
    if !l.a.0.is_finite() || !r.a.0.is_finite() {
        obs.discard("non-finite association energy (solver not converged)");
        return;
    }
    let (mut a, mut b, mut c) = (0, 0, 0);
    for p in &spec.pure {
        a += (mr_f64(p, "na") > 0.0 && p["model_record"].get("kappa_ab").is_some()) as usize;
        b += (mr_f64(p, "nb") > 0.0 && p["model_record"].get("kappa_ab").is_some()) as usize;
        c += (mr_f64(p, "nc") > 0.0 && p["model_record"].get("kappa_ab").is_some()) as usize;
    }
    let analytic = matches!((a * b, c), (1, 0) | (0, 1) | (1, 1));
    obs.class(format!("{key}/{}", if analytic { "closed form vs forced iterative" } else { "iterative on both sides" }));
    obs.class(format!("{key}/sites a*b={} c={}", a * b, c));
    let map: Vec<usize> = (0..spec.n()).collect();
    let extra = 100.0 * o.tol_cross_assoc.max(1e-10) * site_moles_fraction(spec);
    let xs: Vec<f64> = inp.2.to_reduced().iter().map(|n| n / l.ntot).collect();
    let stiff = assoc_stiffness(spec, l.t, l.ntot / l.vol, &xs, case.state.f_eta * spec.opts.max_eta);
    let sharp = compare(obs, key, &l, &r, &map, with_stiffness(TOL_ASSOC, stiff), extra, FLOOR_ASSOC * site_moles_fraction(spec));
    let a_assoc = l.a.0.abs() / (l.t * l.ntot);
    if analytic && sharp >= 5 && a_assoc > 1e3 * (extra + ATOL_A) {
        obs.nontrivial();
    }
}

fn check_homo(case: &Case, obs: &mut Obs, key: &str) {
    let spec = &case.spec;
    obs.class(format!("{key}/{}", spec.source));
    let reference = try_discard!(obs, "reference", homo_reference(spec));
    let multi = reference.npolar.iter().any(|&k| k > 1);
    let lp = match homo_left_params(spec) {
        Ok(p) => p,
        Err(e) => {
            if multi && e.contains("Too many polar") {
                obs.class(format!("{key}/more than one polar or associating group: rejected as documented"));
                obs.count();
                obs.nontrivial();
            } else if !multi {
                obs.fail(format!("from_segments rejects a record with at most one polar/associating group per molecule: {e}"));
            } else {
                obs.discard(format!("from_segments:{}", e.chars().take(48).collect::<String>()));
            }
            return;
        }
    };
    if multi {
        // documented: "We do not allow more than a single segment for q, mu, kappa_ab, epsilon_k_ab"
        obs.fail("from_segments accepted a molecule with more than one polar/associating group".to_string());
        return;
    }
    let rspec = ModelSpec {
        family: Family::PcSaft,
        pure: reference.pure.clone(),
        binary: reference.binary.clone(),
        seg: None,
        opts: spec.opts.clone(),
        source: "reference".into(),
    };
    let rp = try_discard!(obs, "reference params", rspec.pcsaft_params());
    // parameters
    let n = spec.n();
    for i in 0..n {
        obs.close(&format!("m[{i}]"), lp.m[i], rp.m[i], 1e-13, 0.0);
        obs.close(&format!("sigma[{i}]"), lp.sigma[i], rp.sigma[i], 1e-13, 0.0);
        obs.close(&format!("epsilon_k[{i}]"), lp.epsilon_k[i], rp.epsilon_k[i], 1e-13, 0.0);
        obs.close(&format!("mu[{i}]"), lp.mu[i], rp.mu[i], 1e-13, 0.0);
        obs.close(&format!("q[{i}]"), lp.q[i], rp.q[i], 1e-13, 0.0);
        obs.close(&format!("molarweight[{i}]"), lp.molarweight[i], rp.molarweight[i], 1e-13, 0.0);
        for j in 0..n {
            obs.close(&format!("epsilon_k_ij[{i},{j}]"), lp.epsilon_k_ij[[i, j]], rp.epsilon_k_ij[[i, j]], 1e-13, 0.0);
            obs.close(&format!("sigma_ij[{i},{j}]"), lp.sigma_ij[[i, j]], rp.sigma_ij[[i, j]], 1e-13, 0.0);
        }
    }
    if lp.m.iter().any(|&m| m <= 0.0) {
        obs.discard("non-positive segment number after combination");
        return;
    }
    if reference.binary.iter().any(|(_, _, b)| b["k_ij"].as_f64().unwrap() != 0.0) {
        obs.class(format!("{key}/k_ij != 0"));
    }
    let left = Arc::new(PcSaft::with_options(Arc::new(lp), spec.opts.pcsaft()));
    let right = Arc::new(PcSaft::with_options(Arc::new(rp), spec.opts.pcsaft()));
    // state from the reference spec (T scale, max density)
    let rmodel = try_discard!(obs, "build reference", rspec.build());
    let inp = try_discard!(obs, "inputs", state_inputs(&rspec, &rmodel, &case.state));
    let l = try_discard!(obs, "left state", props(&left, &inp, &[]));
    let r = try_discard!(obs, "right state", props(&right, &inp, &[]));
    feature_classes(obs, key, &rspec, &r);
    let map: Vec<usize> = (0..n).collect();
    let sharp = compare(obs, key, &l, &r, &map, TOL_GC, 0.0, 0.0);
    let distinct_groups = spec.pure.iter().any(|p| {
        let a = p["segments"].as_array().unwrap();
        a.iter().any(|s| s != &a[0])
    });
    if sharp >= 5 && distinct_groups {
        obs.nontrivial();
    }
}

fn check_pr(case: &Case, obs: &mut Obs, key: &str) {
    let spec = &case.spec;
    let model = try_discard!(obs, "build", spec.build());
    let inp = try_discard!(obs, "inputs", state_inputs(spec, &model, &case.state));
    let s = try_discard!(obs, "state", State::new_nvt(&model, inp.0, inp.1, &inp.2).map_err(|e| e.to_string()));
    // textbook closed form in SI units
    const R: f64 = 8.31446261815324; // J/(mol K) = k_B N_A (exact SI 2019)
    let t = inp.0.convert_to(KELVIN);
    let v_tot = inp.1.convert_to(METER * METER * METER);
    let moles: Vec<f64> = inp.2.convert_to(MOL).to_vec();
    let ntot: f64 = moles.iter().sum();
    let x: Vec<f64> = moles.iter().map(|m| m / ntot).collect();
    let v = v_tot / ntot; // m^3/mol
    let n = spec.n();
    let rec = |i: usize, k: &str| spec.pure[i]["model_record"][k].as_f64().unwrap();
    let mut kij = vec![vec![0.0; n]; n];
    for (i, j, b) in &spec.binary {
        kij[*i][*j] = b.as_f64().unwrap();
        kij[*j][*i] = b.as_f64().unwrap();
    }
    let a_alpha: Vec<f64> = (0..n)
        .map(|i| {
            let (tc, pc, w) = (rec(i, "tc"), rec(i, "pc"), rec(i, "acentric_factor"));
            let kappa = 0.37464 + 1.54226 * w - 0.26992 * w * w;
            let alpha = (1.0 + kappa * (1.0 - (t / tc).sqrt())).powi(2);
            0.45724 * R * R * tc * tc / pc * alpha
        })
        .collect();
    let b: f64 = (0..n).map(|i| x[i] * 0.07780 * R * rec(i, "tc") / rec(i, "pc")).sum();
    let mut a = 0.0;
    for i in 0..n {
        for j in 0..n {
            a += x[i] * x[j] * (a_alpha[i] * a_alpha[j]).sqrt() * (1.0 - kij[i][j]);
        }
    }
    let rep = R * t / (v - b);
    let att = a / (v * v + 2.0 * b * v - b * b);
    let p_ref = rep - att;
    let p_lib = s.pressure(Contributions::Total).convert_to(PASCAL);
    let scale = rep.abs() + att.abs();
    let d = (p_lib - p_ref).abs();
    track(&format!("{key}/pressure(Total)"), d / (TOL_PR * scale), d / scale);
    obs.close_scaled("pressure(Total) vs RT/(v-b) - a alpha/(v^2+2bv-b^2) [Pa]", p_lib, p_ref, TOL_PR, scale);
    // residual part: p - RT/v
    let p_res_lib = s.pressure(Contributions::Residual).convert_to(PASCAL);
    let ig = R * t / v;
    obs.close_scaled("pressure(Residual) vs closed form - RT/v [Pa]", p_res_lib, p_ref - ig, TOL_PR, scale + ig);
    // dp/dV (total volume) = (dp/dv)/N
    let dpdv_ref = (-R * t / (v - b).powi(2) + a * (2.0 * v + 2.0 * b) / (v * v + 2.0 * b * v - b * b).powi(2)) / ntot;
    let dpdv_lib = s.dp_dv(Contributions::Total).convert_to(PASCAL / (METER * METER * METER));
    let sc = (R * t / (v - b).powi(2) + (a * (2.0 * v + 2.0 * b) / (v * v + 2.0 * b * v - b * b).powi(2)).abs()) / ntot;
    obs.close_scaled("dp_dv(Total) vs closed form [Pa/m^3]", dpdv_lib, dpdv_ref, TOL_PR, sc);
    obs.class(format!("{key}/{}", if att > 1e-3 * rep { "attraction > 0.1 % of repulsion" } else { "repulsion dominated" }));
    obs.class(format!("{key}/{}", if spec.binary.is_empty() { "no k_ij" } else { "k_ij" }));
    if att > 1e3 * TOL_PR * scale && (rep - ig).abs() > 1e3 * TOL_PR * scale {
        obs.nontrivial();
    }
}
/// SI evaluation: ~10 roundings of the closed form, unit conversion factors (k_B, N_A, 1e-30)
const TOL_PR: f64 = 1e-12;

// ---------------------------------------------------------------------------------------
// Parts
// ---------------------------------------------------------------------------------------
const fn part(name: &'static str, quick: u32, thorough: u32) -> PartCfg {
    PartCfg { name, genome_len: 96, cases_quick: quick, cases_thorough: thorough, panic: PanicPolicy::Count }
}
const PARTS: [(Pair, PartCfg); 8] = [
    (Pair::DftBulk, part("dft-bulk", 9600, 320_000)),
    (Pair::Wrapper, part("wrapper", 2400, 80_000)),
    (Pair::EpcIonFree, part("epcsaft-ion-free", 9000, 240_000)),
    (Pair::VrqVsVrMie, part("vrq-fh0-vs-vrmie", 4500, 100_000)),
    (Pair::AssocSplit, part("assoc-split", 3600, 120_000)),
    (Pair::AssocForced, part("assoc-forced-cross", 4500, 100_000)),
    (Pair::HomoGc, part("homo-gc", 4500, 100_000)),
    (Pair::PengRobinson, part("peng-robinson", 6000, 150_000)),
];

pub fn run(ctx: &Ctx) {
    ctx.set_rule("eight sampled parts, one per pair class; every case = (pair class, left ModelSpec, StateSpec of DESIGN 3.2: tau in [0.4,3], eta fraction log-uniform [2e-6,0.9] / uniform, open-simplex composition, moles 1e-3..1e3). Right model derived from the same spec: functional -> equation of state of the same records and options (FMT functional -> BMCSL HardSphere contribution); bare typed struct vs ResidualModel variant vs EquationOfState<IdealGasModel,_>; PC-SAFT (non-polar) -> ePC-SAFT; SAFT-VR Mie (m=1) -> SAFT-VRQ Mie (fh=0); component A -> (A,A) with split mole numbers; Association::new -> new_cross_association; from_segments -> from_records of the harness-combined record; Peng-Robinson -> closed form in SI. Non-trivial: at least 5 of the compared quantities exceed 1e3 x their allowed deviation (a 0.1 % error would be detected) and the class-specific feature is present (association contribution > 1e3 x floor for the association pairs; >= 2 distinct groups for homo-GC; attraction and repulsion both above 1e3 x tolerance for Peng-Robinson). Distinct by hash of the canonical case JSON.");
    ctx.assume("allowed deviation of every quantity = rel * min(S_l,S_r) + round * max(S_l,S_r), S = sum over the side's contributions of |d^k A_c| (public contributions route); two implementations (functional vs equation of state): rel 1e-9, round 1e-12, atol 1e-11 on beta A/N; wrappers and ePC-SAFT/PC-SAFT: 1e-13 (measured bitwise); homosegmented group contribution: 1e-11 (HashMap summation order); SAFT-VRQ Mie FH0 vs SAFT-VR Mie (pure monomers): rel 1e-3 (two different quadratures of the Barker-Henderson diameter, measured 1.5e-5 over 28 seeds); pairs through the iterative association solver: rel 1e-8, atol 100 x tol_cross_assoc x sites on beta A/N and 2e-14 x sites of the ideal-like scale (N T, rho T, N, T, ...) on every quantity (monomer fractions carry an absolute error of a few eps); wherever an association term is compared rel grows by 1e-14 x (rho Delta) (conditioning of the closed form and of the Newton solver at strong association); Peng-Robinson: 1e-12 of (|RT/(v-b)| + |a/(..)|) in Pa");
    ctx.assume("outside the domain by model definition: SAFT-VRQ Mie vs SAFT-VR Mie mixtures (non-additive vs additive d_ij), (A,A) splitting with the gc-PC-SAFT group-group k_ij table; NaN of the equation of state after NotConverged of the cross-association solver is a discard (no value returned), not a disagreement");
    ctx.assume("the bare models are trusted to be internally consistent (C01/C02); this check only compares two routes");
    for (pair, cfg) in PARTS.iter() {
        ctx.run_sampled(cfg, &decode_pair(*pair), &check);
    }
    let w = WORST.lock().unwrap();
    let cal: BTreeMap<String, Value> = w
        .iter()
        .map(|(k, (ratio, rel))| (k.clone(), json!({"worst_diff_over_allowed": ratio, "worst_diff_over_min_scale": rel})))
        .collect();
    ctx.extra("calibration", json!(cal));
}

pub fn replay(ctx: &Ctx, _part: &str, case: &Value) -> bool {
    ctx.replay_case::<Case>(case, &check)
}

#[allow(dead_code)]
fn _unused(_: PureRecord<PcSaftRecord>) {}
