//! C17 — the functional derivative is the derivative of the discretised functional.
//!
//! Parts:
//! * `variation` (sampled): oracle (1) first variation (Ridders in eps of the integrated
//!   Helmholtz energy density vs the integral of dF/drho * phi) and oracle (2) adjointness of
//!   `Convolver::weighted_densities` / `Convolver::functional_derivative` on the functional's
//!   own convolver (scalar, vector, local and FMT weights together; per-row localisation).
//! * `shapes` (lattice): oracle (2) per weight-function shape, geometry, size and Lanczos
//!   setting, including the identity kernel (pure transform pair) — decides whether the polar
//!   plateau (F10) belongs to the transform pair or to one weight function.
//! * `newton-step` (sampled): black-box second variation. One Newton step of the library
//!   (`DFTSolver::newton`, max_iter 1, converged GMRES read from `solver_log`) must solve the
//!   Newton equation whose Jacobian is the numerical derivative of the public Euler-Lagrange
//!   residual: res(rho) + d/d eps res(rho + eps * step) = 0. Covers
//!   `second_partial_derivatives`, `delta_functional_derivative`, `delta_bond_integrals`.
//! * `newton-convergence` (sampled): oracle (4), quadratic convergence of the Newton solver in
//!   slit / cylindrical / spherical pores and planar interfaces read from `solver_log`.
use crate::engine::{Ctx, Gen, Obs, PanicPolicy, PartCfg};
use crate::model::*;
use crate::oracle::{derivative_verdict, ridders, DVerdict};
use crate::props::c16::{
    acyclic_gc, assoc_conditioning, build_bulk, gen_grid, limit_work, GridKind, GridSpec, ASSOC_COND_MAX, FUNCTIONALS,
};
use feos::core::{PhaseEquilibrium, ReferenceSystem, State};
use feos_dft::adsorption::{ExternalPotential, Pore1D, PoreSpecification};
use feos_dft::interface::PlanarInterface;
use feos_dft::{
    Convolver, ConvolverFFT, DFTProfile, DFTSolver, FunctionalContribution, Geometry, Grid,
    HelmholtzEnergyFunctional, WeightFunction, WeightFunctionInfo, WeightFunctionShape,
};
use ndarray::{arr1, Array, Array1, Array2, ArrayD, Axis, Dimension, Ix1, Ix2, Ix3, IxDyn, RemoveAxis};
use quantity::*;
use serde::{Deserialize, Serialize};
use serde_json::{json, Value};
use std::collections::BTreeMap;
use std::sync::{Arc, Mutex};

// ---------------------------------------------------------------------------------------
// measurements for the evidence (never used for a verdict)
// ---------------------------------------------------------------------------------------
static WORST: Mutex<BTreeMap<String, f64>> = Mutex::new(BTreeMap::new());

fn note(key: &str, v: f64) {
    let mut w = WORST.lock().unwrap();
    let e = w.entry(key.to_string()).or_insert(0.0);
    if v > *e || v.is_nan() {
        *e = v;
    }
}

fn decade(v: f64) -> i32 {
    if v > 0.0 {
        v.log10().ceil() as i32
    } else {
        -99
    }
}

// ---------------------------------------------------------------------------------------
// tolerances (relative to the cancellation-safe scale of each comparison)
// ---------------------------------------------------------------------------------------
fn is_exact_geometry(kind: GridKind) -> bool {
    !matches!(kind, GridKind::Spherical | GridKind::Polar | GridKind::Cylindrical)
}

// First-variation identity and adjointness with the grid's own integration weights.
// Cartesian / periodic grids: the discrete transforms are exact transposes of each other
// (roundoff + Ridders accuracy). Spherical: the sine-transform pair is exactly adjoint in the
// measure r^2 while the integration weights are the exact shell volumes 4 pi (r^2 + dr^2/12) dr:
// the difference is bounded case by case by (dr^2/12) 4 pi dr sum |terms| and admitted. Polar
// axis: quasi-discrete Hankel transform on a logarithmic grid, method accuracy.
/// polar axis (quasi-discrete Hankel transform on a logarithmic grid): accuracy of the method,
/// relative to the *largest* values on the grid (sup-norm scale, see check_variation).
/// Measured on the pinned tree (320 polar/cylindrical cases + lattice): transform pair alone,
/// compact mid-domain fields: plateau 1.9e-5 for every n >= 512 and every kernel including the
/// identity (3.6e-3 at n = 256); with functionals: first variation <= 4.0e-3 (n < 1024),
/// <= 3.5e-4 (n >= 1024); adjointness <= 2.6e-3 (cylindrical, n < 1024), <= 2.9e-4 (polar).
fn tol_polar(n0: usize, _rmax_over_l: f64) -> f64 {
    if n0 < 1024 {
        0.5
    } else {
        0.05
    }
}
/// transform pair alone on the lattice (n >= 512)
const POLAR_PLATEAU: f64 = 2e-3;
const TOL_VARIATION_EXACT: f64 = 1e-7;
/// models with association: the site fractions are iterated to tol_cross_assoc (1e-10 absolute),
/// which is noise of that size in F(eps) and of 1e-10/h in its difference quotients
const TOL_VARIATION_ASSOC: f64 = 1e-6;
const TOL_VARIATION_COARSE_SPHERICAL: f64 = 2e-4;
const TOL_ADJOINT_EXACT: f64 = 1e-13;
/// spherical transform pair in its natural measure r^2
const TOL_ADJOINT_NATURAL: f64 = 1e-10;

// ---------------------------------------------------------------------------------------
// helpers
// ---------------------------------------------------------------------------------------
/// C^3 bump with compact support |x| < 3
fn bump(x: f64) -> f64 {
    if x.abs() >= 3.0 {
        0.0
    } else {
        (-x * x).exp() * (1.0 - x * x / 9.0).powi(4)
    }
}

/// array (rows x grid) from a function of (row, grid index)
fn field<DL: Dimension>(nrows: usize, shape: &[usize], f: impl Fn(usize, &[usize]) -> f64) -> Array<f64, DL> {
    let mut sh = vec![nrows];
    sh.extend_from_slice(shape);
    ArrayD::from_shape_fn(IxDyn(&sh), |ix| {
        let s = ix.slice();
        f(s[0], &s[1..])
    })
    .into_dimensionality::<DL>()
    .unwrap()
}

fn integ<D>(profile: &DFTProfile<D, Model>, a: Array<f64, D>) -> f64
where
    D: Dimension,
    D::Larger: Dimension<Smaller = D>,
{
    profile.integrate(&Dimensionless::from_reduced(a)).to_reduced()
}

/// sum over rows of the integral of a_row * b_row, and of |a_row * b_row|
fn inner<D>(profile: &DFTProfile<D, Model>, a: &Array<f64, D::Larger>, b: &Array<f64, D::Larger>) -> (f64, f64)
where
    D: Dimension,
    D::Larger: Dimension<Smaller = D>,
{
    let mut s = 0.0;
    let mut sa = 0.0;
    for (x, y) in a.outer_iter().zip(b.outer_iter()) {
        let p = &x * &y;
        sa += integ(profile, p.mapv(f64::abs));
        s += integ(profile, p);
    }
    (s, sa)
}

/// one contribution evaluated with a convolver planned for that contribution alone (the same
/// public building blocks as `HelmholtzEnergyFunctional::functional_derivative`)
struct Contrib<D: Dimension>
where
    D::Larger: Dimension<Smaller = D>,
{
    name: String,
    /// Helmholtz energy density
    f: Array<f64, D>,
    /// functional derivative
    g: Array<f64, D::Larger>,
    /// partial derivatives with respect to the weighted densities
    pd: Array<f64, D::Larger>,
    conv: Arc<dyn Convolver<f64, D>>,
}

fn contribution_derivatives<D>(
    dft: &Model,
    t: f64,
    rho: &Array<f64, D::Larger>,
    grid: &Grid,
    lanczos: Option<i32>,
) -> Result<Vec<Contrib<D>>, String>
where
    D: Dimension + RemoveAxis + 'static,
    D::Larger: Dimension<Smaller = D>,
    D::Smaller: Dimension<Larger = D>,
    <D::Larger as Dimension>::Larger: Dimension<Smaller = D::Larger>,
{
    let mut out = vec![];
    for c in dft.contributions() {
        let wfi: WeightFunctionInfo<f64> = c.weight_functions(t);
        let conv: Arc<dyn Convolver<f64, D>> = ConvolverFFT::plan(grid, &[wfi], lanczos);
        let wd = conv.weighted_densities(rho).remove(0);
        let nwd = wd.shape()[0];
        let ngrid = wd.len() / nwd;
        let mut f: Array<f64, D> = Array::zeros(rho.raw_dim().remove_axis(Axis(0)));
        let mut pd = Array::zeros(wd.raw_dim());
        c.first_partial_derivatives(
            t,
            wd.into_shape_with_order((nwd, ngrid)).unwrap(),
            f.view_mut().into_shape_with_order(ngrid).unwrap(),
            pd.view_mut().into_shape_with_order((nwd, ngrid)).unwrap(),
        )
        .map_err(|e| e.to_string())?;
        let g = conv.functional_derivative(&[pd.clone()]);
        out.push(Contrib {
            name: c.to_string(),
            f,
            g,
            pd,
            conv,
        });
    }
    Ok(out)
}

/// sum over rows of sqrt(int a_row^2) sqrt(int b_row^2)
fn norm_scale<D>(profile: &DFTProfile<D, Model>, a: &Array<f64, D::Larger>, b: &Array<f64, D::Larger>) -> f64
where
    D: Dimension,
    D::Larger: Dimension<Smaller = D>,
{
    let mut s = 0.0;
    for (x, y) in a.outer_iter().zip(b.outer_iter()) {
        s += (integ(profile, &x * &x) * integ(profile, &y * &y)).sqrt();
    }
    s
}

/// sum over all elements of |a * b| (no integration weights)
fn abs_dot<DD: Dimension>(a: &Array<f64, DD>, b: &Array<f64, DD>) -> f64 {
    a.iter().zip(b.iter()).map(|(x, y)| (x * y).abs()).sum()
}

/// largest kernel radius of the functional's weight functions (Angstrom)
fn max_kernel_radius(dft: &Model, t: f64) -> f64 {
    let mut r = 0.0f64;
    for w in dft.weight_functions(t) {
        for list in w.as_slice() {
            for wf in list.iter() {
                for x in wf.kernel_radius.iter() {
                    r = r.max(*x);
                }
            }
        }
    }
    r
}

/// Ridders verdict for a first variation: analytic `a` vs d/d eps of `f` at 0; `abs_allow` is a
/// rigorous bound on a known discretisation difference that is admitted on top of rtol * scale.
/// Returns (verdict, message, best (|a - d| reduced by abs_allow, Ridders error, scale)).
fn variation_verdict(
    a: f64,
    scale: f64,
    abs_allow: f64,
    rtol: f64,
    f: &dyn Fn(f64) -> Option<f64>,
) -> (DVerdict, String, Option<(f64, f64, f64)>) {
    let mut verdict = DVerdict::Inconclusive;
    let mut info = String::new();
    let mut mism: Vec<f64> = vec![];
    let mut best: Option<(f64, f64, f64)> = None;
    for h0 in [0.1, 0.03, 0.25] {
        let Some((dnum, err)) = ridders(f, 0.0, h0) else {
            if info.is_empty() {
                info = "neighbour evaluation failed".into();
            }
            continue;
        };
        let s = a.abs().max(dnum.abs()).max(scale);
        let excess = ((a - dnum).abs() - abs_allow).max(0.0);
        if best.map(|b| err < b.1).unwrap_or(true) {
            best = Some((excess, err, s));
        }
        // same rule as oracle::derivative_verdict with the admitted absolute term
        let v = if !a.is_finite() {
            DVerdict::Mismatch
        } else if !(err <= 1e-5 * s) {
            DVerdict::Inconclusive
        } else if excess > (50.0 * err).max(rtol * s) {
            DVerdict::Mismatch
        } else {
            DVerdict::Ok
        };
        match v {
            DVerdict::Ok => {
                verdict = DVerdict::Ok;
                break;
            }
            DVerdict::Mismatch => {
                info = format!("analytic {a:e} vs numeric {dnum:e} (Ridders error {err:e}, scale {s:e}, rtol {rtol:e}, admitted discretisation bound {abs_allow:e}, h0 {h0})");
                if mism.iter().any(|d0| (d0 - dnum).abs() <= 100.0 * rtol * s) {
                    verdict = DVerdict::Mismatch;
                    break;
                }
                mism.push(dnum);
            }
            DVerdict::Inconclusive => {
                if info.is_empty() {
                    info = format!("Ridders error {err:e} vs scale {s:e}");
                }
            }
        }
    }
    (verdict, info, best)
}

// =======================================================================================
// Part A: first variation + adjointness on the functional's own convolver
// =======================================================================================
#[derive(Serialize, Deserialize, Clone, Debug)]
pub struct ProfSpec {
    /// false: tanh interface between f_lo and f_hi; true: damped oscillation around f_hi
    pub osc: bool,
    /// densities as fractions of the maximum density of the model
    pub f_lo: f64,
    pub f_hi: f64,
    /// interface position (fraction of the first axis) and width (fraction of its length)
    pub u0: f64,
    pub w: f64,
    /// dense phase at small coordinates
    pub dense_inside: bool,
    pub amp: f64,
    pub lam: f64,
    pub period: f64,
    /// composition on the dilute / dense side
    pub x_lo: Vec<f64>,
    pub x_hi: Vec<f64>,
    /// cosine modulation along the other axes
    pub a2: f64,
    pub k2: usize,
}

#[derive(Serialize, Deserialize, Clone, Debug)]
pub struct PertSpec {
    /// centre (fraction of the axis length, 0.3-0.7) and width (fraction of L/12) per axis
    pub c: Vec<f64>,
    pub s: Vec<f64>,
    /// weight per component (one component only, or mixed)
    pub weights: Vec<f64>,
}

#[derive(Serialize, Deserialize, Clone, Debug)]
pub struct VarCase {
    pub grid: GridSpec,
    pub spec: ModelSpec,
    pub tau: f64,
    pub lanczos: Option<i32>,
    pub prof: ProfSpec,
    pub pert: PertSpec,
    /// offsets of the Weyl sequences that place the test fields of the adjointness check
    pub psi: [f64; 2],
}

/// one-dimensional grids twice as often as the (expensive) multi-dimensional ones
const VAR_KINDS: [GridKind; 11] = [
    GridKind::Cartesian1,
    GridKind::Spherical,
    GridKind::Polar,
    GridKind::Cartesian2,
    GridKind::Cartesian1,
    GridKind::Spherical,
    GridKind::Polar,
    GridKind::Periodical2,
    GridKind::Cylindrical,
    GridKind::Periodical3,
    GridKind::Cartesian3,
];

fn gen_var_grid(g: &mut Gen) -> GridSpec {
    // 1-D grids: 64-4096 points, 2-D: <= 48, 3-D: <= 14 (small, as designed)
    let mut grid = if std::env::var("C17_ONLY_POLAR").is_ok() {
        // calibration aid: polar axes only
        gen_grid(g, &[GridKind::Polar, GridKind::Cylindrical], 4096, 48, 14)
    } else if std::env::var("C17_ONLY_SPHERICAL").is_ok() {
        gen_grid(g, &[GridKind::Spherical], 4096, 48, 14)
    } else {
        gen_grid(g, &VAR_KINDS, 4096, 48, 14)
    };
    if grid.kind.dim() == 1 && grid.n[0] < 64 {
        grid.n[0] += 48;
    }
    grid.offset = 0.0;
    if !is_exact_geometry(grid.kind) {
        // room for the kernel range between the perturbation and the outer boundary: map the
        // length of the curvilinear axis from 10-300 A to 60-300 A
        let u = (grid.len[0].ln() - 10f64.ln()) / (300f64.ln() - 10f64.ln());
        grid.len[0] = (60f64.ln() + u * (300f64.ln() - 60f64.ln())).exp();
    }
    if grid.kind.has_polar_axis() {
        // the quasi-discrete Hankel transform needs n >= 512 (DESIGN C17)
        if grid.kind == GridKind::Cylindrical {
            grid.n[0] = 512 + 64 * (grid.n[0] % 5);
            grid.n[1] = grid.n[1].clamp(8, 12);
        } else {
            // n was drawn log-uniformly from 16-4096: map to 512-4096
            let u = ((grid.n[0] as f64).ln() - 16f64.ln()) / (4096f64.ln() - 16f64.ln());
            grid.n[0] = (512.0 * 8f64.powf(u.clamp(0.0, 1.0)) + 1e-9).floor() as usize;
        }
    }
    grid
}

pub fn decode_var(g: &mut Gen) -> VarCase {
    let grid = gen_var_grid(g);
    let max_comp = if grid.kind.dim() == 1 { 3 } else { 2 };
    let mut spec = gen_model(
        g,
        &GenCfg {
            families: FUNCTIONALS.to_vec(),
            min_comp: 1,
            max_comp,
        },
    );
    acyclic_gc(&mut spec);
    let mut grid = grid;
    if !grid.kind.has_polar_axis() {
        limit_work(&mut grid, &spec);
    }
    let n = spec.n();
    let d = grid.kind.dim();
    let tau = g.range(0.5, 1.6);
    let lanczos = [None, Some(1), Some(2)][g.index(3)];
    let osc = g.bool(0.35);
    let prof = ProfSpec {
        osc,
        f_lo: g.log_range(1e-4, 0.05),
        f_hi: g.range(0.3, 0.85),
        u0: g.range(0.3, 0.7),
        w: g.range(0.02, 0.1),
        dense_inside: g.bool(0.5),
        amp: g.range(0.05, 0.4),
        lam: g.range(0.1, 0.4),
        period: g.range(0.03, 0.15),
        x_lo: g.simplex(n, 0.02),
        x_hi: g.simplex(n, 0.02),
        a2: g.range(0.0, 0.3),
        k2: 1 + g.index(3),
    };
    let single = g.bool(0.5);
    let which = g.index(n);
    let weights = (0..n)
        .map(|i| {
            let w = g.range(-1.0, 1.0);
            if single {
                if i == which {
                    1.0
                } else {
                    0.0
                }
            } else if w.abs() < 0.1 {
                0.5
            } else {
                w
            }
        })
        .collect();
    let curvi = !is_exact_geometry(grid.kind);
    let pert = PertSpec {
        c: (0..d).map(|a| g.range(0.3, if curvi && a == 0 { 0.6 } else { 0.7 })).collect(),
        s: (0..d).map(|_| g.range(0.3, 1.0)).collect(),
        weights,
    };
    let psi = [g.unit(), g.unit()];
    VarCase {
        grid,
        spec,
        tau,
        lanczos,
        prof,
        pert,
        psi,
    }
}

/// (fraction of the maximum density, mixing parameter between x_lo and x_hi) at coordinate u
fn axis_profile(p: &ProfSpec, u: f64, l: f64, shift: f64, wall: f64) -> (f64, f64) {
    if p.osc {
        let dist = (if p.dense_inside { u } else { wall - u } + shift).max(0.0);
        let f = p.f_hi * (1.0 + p.amp * (-dist / (p.lam * l)).exp() * (2.0 * std::f64::consts::PI * dist / (p.period * l)).cos());
        (f, 1.0)
    } else {
        let mut s = 0.5 * (1.0 + ((u - p.u0 * l - shift) / (p.w * l)).tanh());
        if p.dense_inside {
            s = 1.0 - s;
        }
        (p.f_lo + (p.f_hi - p.f_lo) * s, s)
    }
}

struct VarSetup {
    model: Arc<Model>,
    bulk: State<Model>,
    t: f64,
    rho_max: f64,
}

fn var_setup(spec: &ModelSpec, tau: f64, x: &[f64], f_hi: f64, obs: &mut Obs) -> Option<VarSetup> {
    let model = match spec.build() {
        Ok(m) => m,
        Err(e) => {
            obs.discard(format!("build:{}", e.chars().take(40).collect::<String>()));
            return None;
        }
    };
    let st = StateSpec {
        tau,
        f_eta: 1.0,
        x: x.to_vec(),
        lambda: 1.0,
        no_t_floor: false,
    };
    let mut inputs = match state_inputs(spec, &model, &st) {
        Ok(i) => i,
        Err(e) => {
            obs.discard(format!("inputs:{e}"));
            return None;
        }
    };
    if spec.family == Family::SaftVRQMieFunctional && inputs.0.to_reduced() < 20.0 {
        inputs.0 = Temperature::from_reduced(20.0);
    }
    let rho_max = (inputs.2.sum() / inputs.1).to_reduced();
    // bulk state of the profile object (only its temperature matters for this part)
    let inputs_b = (inputs.0, inputs.1 / f_hi, inputs.2.clone());
    let bulk = match build_state(&model, &inputs_b) {
        Ok(s) => s,
        Err(e) => {
            obs.discard(format!("state:{}", e.chars().take(40).collect::<String>()));
            return None;
        }
    };
    Some(VarSetup {
        t: inputs.0.to_reduced(),
        model,
        bulk,
        rho_max,
    })
}

fn check_variation<D>(case: &VarCase, obs: &mut Obs, su: &VarSetup)
where
    D: Dimension + RemoveAxis + 'static,
    D::Larger: Dimension<Smaller = D>,
    D::Smaller: Dimension<Larger = D>,
    <D::Larger as Dimension>::Larger: Dimension<Smaller = D::Larger>,
{
    let kind = case.grid.kind;
    let grid = case.grid.build();
    let dft = su.model.clone();
    let t = su.t;
    let coords: Vec<Array1<f64>> = grid.axes().iter().map(|a| a.grid.clone()).collect();
    let shape: Vec<usize> = coords.iter().map(|c| c.len()).collect();
    let lens = &case.grid.len;
    let ci = dft.component_index().into_owned();
    let nseg = ci.len();
    let p = &case.prof;
    let d = shape.len();
    let exact = is_exact_geometry(kind);
    let akey = if case.spec.has_association() { "assoc" } else { "plain" };
    // conditioning of the association term (see c16::assoc_conditioning)
    let acond = assoc_conditioning(&case.spec, t);
    if acond >= ASSOC_COND_MAX {
        obs.class("association beyond f64 conditioning (eps_AB/T > 25): skipped");
        return;
    }

    // ---- width of the perturbation along each axis. Curvilinear axes: the uniform part of a
    // profile is transported by the boundary split of CurvilinearConvolver, which presumes that
    // the convolution conserves mass; on the grid this holds to the extent that the perturbation
    // is resolved (spectral tail ~ exp(-(pi s/dr)^2/4)) and that it stays away from the outer
    // boundary by more than the kernel range. Both are part of "smooth perturbation supported
    // away from the boundary": width >= 3.5 local grid spacings, distance >= largest radius. ----
    let mut widths: Vec<f64> = (0..d).map(|a| case.pert.s[a] * lens[a] / 12.0).collect();
    let mut flat: Option<(f64, f64)> = None;
    if !exact {
        let c0 = case.pert.c[0] * lens[0];
        let i0 = coords[0].iter().position(|r| *r >= c0 + 3.0 * widths[0]).unwrap_or(shape[0] - 1).max(1);
        let dr = coords[0][i0] - coords[0][i0 - 1];
        widths[0] = widths[0].max(3.5 * dr);
        let rmax = max_kernel_radius(&dft, t);
        if c0 + 3.0 * widths[0] + rmax > lens[0] {
            obs.discard("perturbation closer to the outer boundary than the kernel range");
            return;
        }
        obs.class(format!("perturbation-width/spacing>={}", ((widths[0] / dr) as usize).min(16)));
        // Spherical and polar axes end in the bulk: the boundary value of the profile is continued
        // beyond the grid, and the vector weighted densities are taken to vanish there. The
        // profile is therefore made exactly flat within the kernel range (+ 4 cells) of the outer
        // boundary, with a C^2 transition over 0.12 L before that shell.
        let dr_out = coords[0][shape[0] - 1] - coords[0][shape[0] - 2];
        let r2 = lens[0] - rmax - 4.0 * dr_out;
        flat = Some((r2 - 0.12 * lens[0], r2));
    }

    // ---- density profile and perturbation ----
    let modulation = |ix: &[usize]| -> f64 {
        let mut m = 1.0;
        for a in 1..d {
            m *= 1.0 + p.a2 * (std::f64::consts::PI * p.k2 as f64 * coords[a][ix[a]] / lens[a]).cos();
        }
        m
    };
    let wall = flat.map(|f| f.0).unwrap_or(lens[0]);
    let raw = |s: usize, u: f64| -> f64 {
        let shift = ((s % 3) as f64 - 1.0) * 0.02 * lens[0];
        let (f, mix) = axis_profile(p, u, lens[0], shift, wall);
        let c = ci[s];
        let x = p.x_lo[c] + (p.x_hi[c] - p.x_lo[c]) * mix;
        x * f * su.rho_max
    };
    let rho: Array<f64, D::Larger> = field(nseg, &shape, |s, ix| {
        let u = coords[0][ix[0]];
        let mut v = raw(s, u);
        if let Some((r1, r2)) = flat {
            let x = ((u - r1) / (r2 - r1)).clamp(0.0, 1.0);
            let cut = 1.0 - x * x * x * (10.0 - 15.0 * x + 6.0 * x * x);
            let v_out = raw(s, lens[0]);
            v = v_out + (v - v_out) * cut;
        }
        v * modulation(ix)
    });
    if rho.iter().any(|r| !(*r > 0.0) || !r.is_finite()) {
        obs.discard("non-positive density profile");
        return;
    }
    let window = |ix: &[usize]| -> f64 {
        let mut b = 1.0;
        for a in 0..d {
            b *= bump((coords[a][ix[a]] - case.pert.c[a] * lens[a]) / widths[a]);
        }
        b
    };
    let bwin: Array<f64, D::Larger> = field(1, &shape, |_, ix| window(ix));
    // phi_s = w_c * rho_ref_s * B(r), rho_ref_s = min of rho_s over the support of B (so that
    // rho + eps phi > 0 for |eps| < 1)
    let mut rho_ref = vec![f64::MAX; nseg];
    for (s, row) in rho.outer_iter().enumerate() {
        for (r, b) in row.iter().zip(bwin.index_axis(Axis(0), 0).iter()) {
            if *b > 0.0 {
                rho_ref[s] = rho_ref[s].min(*r);
            }
        }
    }
    if rho_ref.iter().any(|r| *r == f64::MAX) {
        obs.discard("no grid point inside the support of the perturbation");
        return;
    }
    let phi: Array<f64, D::Larger> = field(nseg, &shape, |s, ix| case.pert.weights[ci[s]] * rho_ref[s] * window(ix));

    let bulk_rho = Density::from_reduced(rho.clone());
    let profile = DFTProfile::<D, Model>::new(grid.clone(), &su.bulk, None, Some(&bulk_rho), case.lanczos);
    let conv = profile.convolver.clone();

    // ---- classes ----
    obs.class(format!("{:?}", kind));
    obs.class(case.spec.label());
    obs.class(format!("{}:{:?}", case.spec.label(), kind));
    obs.class(format!("fmt-version={}", case.spec.opts.fmt));
    obs.class(format!("n={}", case.spec.n()));
    obs.class(format!("lanczos={:?}", case.lanczos));
    obs.class(if p.osc { "profile:oscillating" } else { "profile:tanh" });
    obs.class(if case.pert.weights.iter().filter(|w| **w != 0.0).count() > 1 {
        "perturbation:mixed"
    } else {
        "perturbation:single-component"
    });
    if case.spec.has_association() {
        obs.class("assoc");
    }
    if dft.bond_lengths(t).edge_count() > 0 {
        obs.class("heterosegmented(bonds)");
    }
    let has_vec = dft.weight_functions(t).iter().any(|w| {
        let [_, vc, _, vf] = w.as_slice();
        !vc.is_empty() || !vf.is_empty()
    });
    if has_vec {
        obs.class("vector-weights");
    }

    // spherical axis: natural measure 4 pi r^2 dr of the sine-transform pair; the grid's own
    // weights are the exact shell volumes 4 pi (r^2 + dr^2/12) dr. Differences between the two
    // discretisations are bounded rigorously by (dr^2/12) 4 pi dr sum |terms| (unweighted).
    let sph = if kind == GridKind::Spherical {
        let dr = lens[0] / shape[0] as f64;
        let w = coords[0].mapv(|r| 4.0 * std::f64::consts::PI * r * r * dr);
        Some((w, dr * dr / 12.0 * 4.0 * std::f64::consts::PI * dr))
    } else {
        None
    };
    let nat_inner = |a: &Array<f64, D::Larger>, b: &Array<f64, D::Larger>, w: &Array1<f64>| -> (f64, f64) {
        let mut s = 0.0;
        let mut sa = 0.0;
        for (x, y) in a.outer_iter().zip(b.outer_iter()) {
            for ((x, y), w) in x.iter().zip(y.iter()).zip(w.iter()) {
                s += x * y * w;
                sa += (x * y * w).abs();
            }
        }
        (s, sa)
    };

    // =============== oracle (1): first variation ===============
    let (_f0, g) = match dft.functional_derivative(t, &rho, &conv) {
        Ok(r) => r,
        Err(e) => {
            obs.discard(format!("functional_derivative:{}", e.to_string().chars().take(40).collect::<String>()));
            return;
        }
    };
    if g.iter().any(|x| !x.is_finite()) {
        obs.discard("non-finite functional derivative");
        return;
    }
    let (a, _) = inner(&profile, &g, &phi);
    let contribs = match contribution_derivatives::<D>(&dft, t, &rho, &grid, case.lanczos) {
        Ok(c) => c,
        Err(e) => {
            obs.discard(format!("contributions:{}", e.chars().take(40).collect::<String>()));
            return;
        }
    };
    // the sum over the contributions reproduces the library total (checks the helper, and that
    // the total is the sum of its parts); scale = sum_c sum_s int |dF_c/drho_s phi_s|
    let mut scale = 0.0;
    let mut a_sum = 0.0;
    let mut scale_nat = 0.0;
    let mut bound_own = 0.0; // rigorous bound on |own - natural| discretisation difference (spherical)
    let mut f_abs = 0.0; // int sum_c |f_c|: roundoff scale of the integrated energy density
    let mut scale_glob = 0.0; // polar axes: sum_c max |dF_c/drho| int |phi|
    for c in &contribs {
        let (ac, sc) = inner(&profile, &c.g, &phi);
        a_sum += ac;
        scale += sc;
        f_abs += integ(&profile, c.f.mapv(f64::abs));
        if kind.has_polar_axis() {
            // The error of the quasi-discrete Hankel transform is relative to the largest values
            // on the grid, not to the local ones (a perturbation on the dilute side of an interface
            // feels the transform error of the dense side): scale with the sup-norm of dF_c/drho
            let gmax = c.g.iter().fold(0.0f64, |m, x| m.max(x.abs()));
            let phi_l1: f64 = phi.outer_iter().map(|row| integ(&profile, row.mapv(f64::abs))).sum();
            scale_glob += gmax * phi_l1;
        }
        if let Some((w, cb)) = &sph {
            scale_nat += nat_inner(&c.g, &phi, w).1;
            let wphi = c.conv.weighted_densities(&phi).remove(0);
            bound_own += cb * (abs_dot(&c.pd, &wphi) + abs_dot(&c.g, &phi));
        }
    }
    obs.close_scaled("sum over contributions of int dF_c/drho phi = total", a_sum, a, 1e-10, scale);
    // evaluations of the energy density along rho + eps phi (shared by the measures)
    let cache: std::cell::RefCell<Vec<(f64, Array<f64, D>)>> = std::cell::RefCell::new(vec![]);
    let f_at = |e: f64| -> Option<Array<f64, D>> {
        if let Some((_, f)) = cache.borrow().iter().find(|(x, _)| *x == e) {
            return Some(f.clone());
        }
        let r = &rho + &(&phi * e);
        let (f, _) = dft.functional_derivative(t, &r, &conv).ok()?;
        if f.iter().any(|x| !x.is_finite()) {
            return None;
        }
        cache.borrow_mut().push((e, f.clone()));
        Some(f)
    };
    let fe_own = |e: f64| -> Option<f64> { Some(integ(&profile, f_at(e)?)) };
    let rtol_assoc = if case.spec.has_association() { TOL_VARIATION_ASSOC * acond } else { TOL_VARIATION_EXACT };
    let rl = max_kernel_radius(&dft, t) / lens[0];
    let rtol1 = match kind {
        GridKind::Polar | GridKind::Cylindrical => tol_polar(case.grid.n[0], rl),
        _ => rtol_assoc,
    };
    let mut conclusive = false;
    let report = |obs: &mut Obs, label: &str, a: f64, v: (DVerdict, String, Option<(f64, f64, f64)>), rtol: f64| -> bool {
        obs.count();
        if let Some((excess, err, s)) = v.2 {
            if err <= 1e-5 * s {
                note(&format!("variation ({label}) defect/scale {:?} [{akey}]", kind), excess / s);
                note(&format!("variation ({label}) defect/tol {:?} [{akey}]", kind), excess / s / rtol);
                note(&format!("variation ({label}) defect/scale by family {} {}", case.spec.label(), if exact { "exact geometries" } else { "curvilinear" }), excess / s);
                if kind == GridKind::Spherical {
                    note(&format!("spherical: variation ({label}) defect n<={}", case.grid.n[0].next_power_of_two()), excess / s);
                }
                if kind.has_polar_axis() {
                    note(&format!("polar axis: variation defect / (Rmax/L)^2 {:?}", kind), excess / s / (rl * rl));
                    note(&format!("polar axis: variation defect {:?} n<={}", kind, case.grid.n[0].next_power_of_two()), excess / s);
                }
                obs.class(format!("variation({label})-defect<=1e{}:{:?}", decade(excess / s), kind));
            }
        }
        match v.0 {
            DVerdict::Ok => true,
            DVerdict::Inconclusive => {
                obs.inconclusive(format!("variation({label}):{:?}", kind));
                false
            }
            DVerdict::Mismatch => {
                // localise: contribution by contribution (grid's own weights)
                let mut loc = vec![];
                for (k, c) in contribs.iter().enumerate() {
                    let (ac, sc) = inner(&profile, &c.g, &phi);
                    let fc = |e: f64| -> Option<f64> {
                        let r = &rho + &(&phi * e);
                        let cc = contribution_derivatives::<D>(&dft, t, &r, &grid, case.lanczos).ok()?;
                        Some(integ(&profile, cc[k].f.clone()))
                    };
                    if let Some((dc, ec)) = ridders(&fc, 0.0, 0.1) {
                        let s = sc.max(ac.abs()).max(dc.abs());
                        if derivative_verdict(ac, dc, ec, s, rtol) == DVerdict::Mismatch {
                            loc.push(format!("{}: {ac:e} vs {dc:e}", c.name));
                        }
                    }
                }
                obs.fail(format!(
                    "first variation ({label}) [{:?} n={:?} lanczos={:?}] a = {a:e}: {} [contributions (own weights): {}]",
                    kind,
                    case.grid.n,
                    case.lanczos,
                    v.1,
                    loc.join("; ")
                ));
                true
            }
        }
    };
    // grid's own integration weights (the statement of the property)
    // F(eps) is a difference of integrals over the whole grid: roundoff ~ 1e-16 int |f| / h on the
    // difference quotient; 1e-13 int |f| is admitted (matters only for perturbations that are
    // tiny compared with the total energy, e.g. on the vapour side of an interface)
    let noise = 1e-13 * f_abs;
    obs.class(if scale > 1e-5 * f_abs { "perturbation>1e-5 of total energy" } else { "perturbation<1e-5 of total energy" });
    let scale = scale.max(scale_glob);
    let v_own = variation_verdict(a, scale, 1.05 * bound_own + noise, rtol1, &fe_own);
    conclusive |= report(obs, "own weights", a, v_own, rtol1);
    if let Some((w, _)) = &sph {
        // natural measure of the spherical transform pair: exact like the Cartesian grids
        let (a_nat, _) = nat_inner(&g, &phi, w);
        let fe_nat = |e: f64| -> Option<f64> { Some(f_at(e)?.iter().zip(w.iter()).map(|(x, w)| x * w).sum()) };
        // below 128 points the cells (up to 4.7 A) exceed the kernel radii and the mass sum of the
        // boundary split loses its spectral accuracy (measured: 3.5e-6 worst at n = 64-127,
        // <= 5.5e-11 for n >= 128)
        let rtol_nat = if shape[0] < 128 {
            TOL_VARIATION_COARSE_SPHERICAL
        } else {
            rtol_assoc.max(TOL_VARIATION_COARSE_SPHERICAL * (128.0 / shape[0] as f64).powi(8))
        };
        let v_nat = variation_verdict(a_nat, scale_nat, noise, rtol_nat, &fe_nat);
        report(obs, "measure r^2", a_nat, v_nat, rtol_nat);
        note("spherical: admitted own-vs-natural bound / scale", 1.05 * bound_own / scale);
    }

    // =============== oracle (2): adjointness of the two convolutions ===============
    let frac = |x: f64| x - x.floor();
    let cmax = if exact { 0.4 } else { 0.3 };
    let psi_at = |row: usize, ix: &[usize], compact: bool| -> f64 {
        let mut b = if row % 2 == 0 { 1.0 } else { -1.0 };
        for a in 0..d {
            let c = 0.3 + cmax * frac(case.psi[0] + 0.618_033_988_75 * (row + 3 * a) as f64);
            let s = (0.4 + 0.6 * frac(case.psi[1] + 0.381_966 * (row + 5 * a) as f64)) * lens[a] / 12.0;
            b *= bump((coords[a][ix[a]] - c * lens[a]) / s);
        }
        if !compact {
            // Cartesian / periodic transforms are exact transposes for arbitrary fields
            b += 0.3 + 0.2 * (std::f64::consts::PI * ((row % 4) + 1) as f64 * coords[0][ix[0]] / lens[0]).cos();
        }
        b
    };
    let tests: Vec<(&str, Array<f64, D::Larger>, bool)> = if exact {
        vec![("compact", phi.clone(), true), ("full-profile", rho.clone(), false)]
    } else {
        vec![("compact", phi.clone(), true)]
    };
    // adjointness relative to the norms of the fields: Cartesian/periodic roundoff (measured
    // <= 8e-16), polar axis measured <= 2.3e-4 (n < 1024) and <= 1.3e-5 (n >= 1024)
    let tol2 = match kind {
        GridKind::Polar | GridKind::Cylindrical => {
            if case.grid.n[0] < 1024 {
                0.02
            } else {
                0.005
            }
        }
        _ => TOL_ADJOINT_EXACT,
    };
    for (tname, test, compact) in tests.iter() {
        let wds = conv.weighted_densities(test);
        let mut row0 = 0;
        let psis: Vec<Array<f64, D::Larger>> = wds
            .iter()
            .map(|wd| {
                let nr = wd.shape()[0];
                let r0 = row0;
                row0 += nr;
                field(nr, &shape, |r, ix| psi_at(r0 + r, ix, *compact))
            })
            .collect();
        let mut lhs = 0.0;
        let mut sc = 0.0;
        let mut raw = 0.0; // unweighted sum of |terms| (spherical bound)
        for (psi, wd) in psis.iter().zip(wds.iter()) {
            let (v, _) = inner(&profile, psi, wd);
            lhs += v;
            sc += norm_scale(&profile, psi, wd);
            raw += abs_dot(psi, wd);
        }
        let fd = conv.functional_derivative(&psis);
        let (rhs, _) = inner(&profile, &fd, test);
        raw += abs_dot(&fd, test);
        // scale: sum over rows of |psi_row|_2 |n_row|_2 (Cauchy-Schwarz bound of each term). The
        // integral of |psi n| itself can be arbitrarily small when two compact fields barely
        // overlap, while roundoff and transform errors are relative to the fields.
        let s = sc.max(norm_scale(&profile, &fd, test));
        let allow = sph.as_ref().map(|(_, cb)| 1.05 * cb * raw).unwrap_or(0.0);
        let defect = ((lhs - rhs).abs() - allow).max(0.0) / s;
        note(&format!("adjoint defect/scale {:?} [{tname}]", kind), defect);
        if kind.has_polar_axis() {
            note(&format!("polar axis: adjoint defect / (Rmax/L)^2 {:?}", kind), defect / (rl * rl));
        }
        note(&format!("adjoint defect/tol {:?} [{tname}]", kind), defect / tol2);
        obs.class(format!("adjoint-defect<=1e{}:{:?}", decade(defect), kind));
        obs.count();
        if !(defect <= tol2) {
            // localise: row by row
            let mut loc = vec![];
            'outer: for (b, wd) in wds.iter().enumerate() {
                for r in 0..wd.shape()[0] {
                    let only: Vec<Array<f64, D::Larger>> = psis
                        .iter()
                        .enumerate()
                        .map(|(bb, ps)| {
                            let mut z = Array::zeros(ps.raw_dim());
                            if bb == b {
                                z.index_axis_mut(Axis(0), r).assign(&ps.index_axis(Axis(0), r));
                            }
                            z
                        })
                        .collect();
                    let (l1, _) = inner(&profile, &only[b], wd);
                    let s1 = norm_scale(&profile, &only[b], wd);
                    let fd1 = conv.functional_derivative(&only);
                    let (r1, _) = inner(&profile, &fd1, test);
                    let s2 = norm_scale(&profile, &fd1, test);
                    let al = sph.as_ref().map(|(_, cb)| 1.05 * cb * (abs_dot(&only[b], wd) + abs_dot(&fd1, test))).unwrap_or(0.0);
                    let d1 = ((l1 - r1).abs() - al).max(0.0) / s1.max(s2).max(1e-300);
                    if d1 > tol2 {
                        loc.push(format!("contribution {b} row {r}: {l1:e} vs {r1:e} (defect {d1:e})"));
                        if loc.len() >= 6 {
                            break 'outer;
                        }
                    }
                }
            }
            obs.fail(format!(
                "adjointness [{:?} n={:?} lanczos={:?} test={tname}]: sum_k <psi_k, n_k[rho]> = {lhs:e} vs <Conv^T psi, rho> = {rhs:e} (defect {defect:e} > {tol2:e}, admitted bound {allow:e}) [{}]",
                kind,
                case.grid.n,
                case.lanczos,
                loc.join("; ")
            ));
        }
        // spherical transform pair in its natural measure r^2: exact to roundoff
        if let Some((w, _)) = &sph {
            let mut l = 0.0;
            let mut sl = 0.0;
            for (psi, wd) in psis.iter().zip(wds.iter()) {
                let (v, _) = nat_inner(psi, wd, w);
                l += v;
                for (x, y) in psi.outer_iter().zip(wd.outer_iter()) {
                    let nx: f64 = x.iter().zip(w.iter()).map(|(x, w)| x * x * w).sum();
                    let ny: f64 = y.iter().zip(w.iter()).map(|(y, w)| y * y * w).sum();
                    sl += (nx * ny).sqrt();
                }
            }
            let (r, _) = nat_inner(&fd, test, w);
            let dn = (l - r).abs() / sl;
            note("adjoint defect/scale Spherical natural measure r^2", dn);
            obs.class(format!("adjoint-natural-defect<=1e{}", decade(dn)));
            obs.ensure(dn <= TOL_ADJOINT_NATURAL, || {
                format!("adjointness in the natural measure r^2 [Spherical n={:?}]: {l:e} vs {r:e} (defect {dn:e})", case.grid.n)
            });
        }
    }

    // ---- non-trivial: the profile varies by > 10 % over the support of phi, the variation is
    // visible against its scale, the oracle was conclusive ----
    let mut lo = f64::MAX;
    let mut hi = 0.0f64;
    for (s, row) in rho.outer_iter().enumerate() {
        if case.pert.weights[ci[s]] == 0.0 {
            continue;
        }
        for (r, b) in row.iter().zip(bwin.index_axis(Axis(0), 0).iter()) {
            if *b > 1e-3 {
                lo = lo.min(*r);
                hi = hi.max(*r);
            }
        }
    }
    let varies = hi > 1.1 * lo;
    obs.class(if varies { "profile-varies>10%-on-support" } else { "profile-flat-on-support" });
    if varies && conclusive && a.abs() > 1e-6 * scale {
        obs.nontrivial();
    }
}

pub fn check_var(case: &VarCase, obs: &mut Obs) {
    let Some(su) = var_setup(&case.spec, case.tau, &case.prof.x_hi, case.prof.f_hi, obs) else { return };
    match case.grid.kind.dim() {
        1 => check_variation::<Ix1>(case, obs, &su),
        2 => check_variation::<Ix2>(case, obs, &su),
        _ => check_variation::<Ix3>(case, obs, &su),
    }
}

// =======================================================================================
// Part B: adjointness per weight-function shape (lattice)
// =======================================================================================
#[derive(Serialize, Deserialize, Clone, Debug)]
pub struct ShapeCase {
    pub kind: GridKind,
    pub n: usize,
    pub len: f64,
    /// Theta, Delta, KR0, KR1, DeltaVec, Identity (normalised Delta of radius 1e-6: the
    /// transform pair alone)
    pub shape: String,
    pub lanczos: Option<i32>,
    pub radius: f64,
}

fn fmt_bulk() -> State<Model> {
    let spec = ModelSpec {
        family: Family::FmtFunctional,
        pure: vec![json!({"sigma": 3.0})],
        binary: vec![],
        seg: None,
        opts: Opts::default(),
        source: "fixed".into(),
    };
    let m = spec.build().unwrap();
    State::new_nvt(
        &m,
        300.0 * KELVIN,
        Volume::from_reduced(1000.0),
        &Moles::from_reduced(arr1(&[1.0])),
    )
    .unwrap()
}

pub fn shape_items() -> Vec<ShapeCase> {
    let mut v = vec![];
    for kind in [GridKind::Cartesian1, GridKind::Spherical, GridKind::Polar] {
        let ns: &[usize] = if kind == GridKind::Polar {
            &[256, 512, 1024, 2048, 4096]
        } else {
            &[64, 100, 256, 512, 1024, 2048, 4096]
        };
        for &n in ns {
            for len in [20.0, 50.0, 150.0] {
                for shape in ["Theta", "Delta", "KR0", "KR1", "DeltaVec", "Identity"] {
                    for lanczos in [None, Some(1)] {
                        v.push(ShapeCase {
                            kind,
                            n,
                            len,
                            shape: shape.into(),
                            lanczos,
                            radius: 1.9,
                        });
                    }
                }
            }
        }
    }
    v
}

pub fn check_shape(case: &ShapeCase, obs: &mut Obs) {
    let gs = GridSpec {
        kind: case.kind,
        n: vec![case.n],
        len: vec![case.len],
        angles: vec![],
        offset: 0.0,
    };
    let grid = gs.build();
    let r = grid.axes()[0].grid.clone();
    let wf = match case.shape.as_str() {
        "Theta" => WeightFunction::new_scaled(arr1(&[case.radius]), WeightFunctionShape::Theta),
        "Delta" => WeightFunction::new_scaled(arr1(&[case.radius]), WeightFunctionShape::Delta),
        "KR0" => WeightFunction::new_unscaled(arr1(&[case.radius]), WeightFunctionShape::KR0),
        "KR1" => WeightFunction::new_unscaled(arr1(&[case.radius]), WeightFunctionShape::KR1),
        "DeltaVec" => WeightFunction {
            prefactor: arr1(&[1.0 / (4.0 * std::f64::consts::PI * case.radius * case.radius)]),
            kernel_radius: arr1(&[case.radius]),
            shape: WeightFunctionShape::DeltaVec,
        },
        _ => WeightFunction::new_scaled(arr1(&[1e-6]), WeightFunctionShape::Delta),
    };
    let wfi = WeightFunctionInfo::new(arr1(&[0usize]), false).add(wf, false);
    let conv: Arc<dyn Convolver<f64, Ix1>> = ConvolverFFT::plan(&grid, &[wfi], case.lanczos);
    let bulk = fmt_bulk();
    let profile = DFTProfile::<Ix1, Model>::new(grid.clone(), &bulk, None, None, None);
    let l = case.len;
    // two overlapping compact fields of different width and position
    let rho: Array2<f64> = field(1, &[case.n], |_, ix| bump((r[ix[0]] - 0.52 * l) / (l / 14.0)));
    let psi: Array2<f64> = field(1, &[case.n], |_, ix| bump((r[ix[0]] - 0.45 * l) / (l / 20.0)) - 0.5 * bump((r[ix[0]] - 0.6 * l) / (l / 30.0)));
    let wd = conv.weighted_densities(&rho).remove(0);
    let (lhs, _) = inner(&profile, &psi, &wd);
    let fd = conv.functional_derivative(&[psi.clone()]);
    let (rhs, _) = inner(&profile, &fd, &rho);
    let s = norm_scale(&profile, &psi, &wd).max(norm_scale(&profile, &fd, &rho));
    let defect = (lhs - rhs).abs() / s;
    obs.class(format!("{:?}:{}", case.kind, case.shape));
    obs.class(format!("{:?}:{}:defect<=1e{}", case.kind, case.shape, decade(defect)));
    note(&format!("shape {:?} {:9} n={:4}", case.kind, case.shape, case.n), defect);
    // spherical: own weights 4 pi (r^2 + dr^2/12) dr vs the natural measure 4 pi r^2 dr of the
    // transform pair: the difference is bounded by (dr^2/12) 4 pi dr sum |terms| (unweighted)
    let allow = if case.kind == GridKind::Spherical {
        let dr = case.len / case.n as f64;
        1.05 * dr * dr / 12.0 * 4.0 * std::f64::consts::PI * dr * (abs_dot(&psi, &wd) + abs_dot(&fd, &rho))
    } else {
        0.0
    };
    let tol = if case.kind == GridKind::Polar {
        if case.n >= 512 {
            POLAR_PLATEAU
        } else {
            tol_polar(case.n, 0.0)
        }
    } else {
        TOL_ADJOINT_EXACT
    };
    let excess = ((lhs - rhs).abs() - allow).max(0.0) / s;
    if case.kind == GridKind::Spherical {
        note(&format!("shape Spherical(excess over bound) {:9} n={:4}", case.shape, case.n), excess);
    }
    obs.ensure(excess <= tol, || {
        format!("adjointness of one weight function [{:?} {} n={} L={} lanczos={:?}]: {lhs:e} vs {rhs:e} (defect {defect:e} > {tol:e})", case.kind, case.shape, case.n, case.len, case.lanczos)
    });
    if case.kind == GridKind::Spherical {
        let mut a = 0.0;
        let mut sa = 0.0;
        let mut b = 0.0;
        for i in 0..case.n {
            let w = r[i] * r[i];
            a += psi[[0, i]] * wd[[0, i]] * w;
            sa += (psi[[0, i]] * wd[[0, i]] * w).abs();
            b += fd[[0, i]] * rho[[0, i]] * w;
        }
        let dn = (a - b).abs() / sa;
        note(&format!("shape Spherical(natural r^2) {:9} n={:4}", case.shape, case.n), dn);
        obs.ensure(dn <= TOL_ADJOINT_NATURAL, || {
            format!("adjointness in the natural measure [Spherical {} n={} L={}]: defect {dn:e}", case.shape, case.n, case.len)
        });
    }
    if s > 0.0 && lhs.abs() > 1e-3 * s {
        obs.nontrivial();
    }
}

// =======================================================================================
// Part C: one Newton step vs the numerical Jacobian of the Euler-Lagrange residual
// =======================================================================================
#[derive(Serialize, Deserialize, Clone, Debug)]
pub struct StepCase {
    pub grid: GridSpec,
    pub spec: ModelSpec,
    pub state: StateSpec,
    pub lanczos: Option<i32>,
    /// relative amplitude, period (fraction of L) and phase of the initial perturbation
    pub amp: f64,
    pub period: f64,
    pub phase: f64,
    /// Newton in rho (false) or ln rho (true)
    pub log: bool,
    /// amplitude (k_B T) of a smooth external potential
    #[serde(default)]
    pub vext: f64,
    /// wall region (external potential = 40 k_B T) beyond 0.8 L
    #[serde(default)]
    pub wall: bool,
    /// > 0: the profile is a Pore1D (LJ 9-3 wall of this energy parameter, K) of the grid's
    /// geometry, pre-relaxed by `relax` Anderson iterations, instead of the synthetic profile
    #[serde(default)]
    pub pore_eps: f64,
    #[serde(default)]
    pub relax: usize,
}

pub fn decode_step(g: &mut Gen) -> StepCase {
    let kinds = [GridKind::Cartesian1, GridKind::Spherical, GridKind::Polar];
    let mut grid = gen_grid(g, &kinds, 400, 8, 8);
    grid.offset = 0.0;
    grid.n[0] = grid.n[0].max(48);
    if grid.kind == GridKind::Polar {
        grid.n[0] = 512;
    }
    let mut spec = gen_model(
        g,
        &GenCfg {
            families: FUNCTIONALS.to_vec(),
            min_comp: 1,
            max_comp: 2,
        },
    );
    acyclic_gc(&mut spec);
    let mut state = gen_state(g, spec.n());
    // mechanically stable fluid states: supercritical or liquid-like
    state.tau = g.range(0.6, 2.0);
    state.f_eta = g.range(0.05, 0.85);
    let lanczos = [None, Some(1), Some(2)][g.index(3)];
    let amp = g.range(0.02, 0.12);
    let period = g.range(0.05, 0.5);
    let phase = g.range(0.0, 6.28);
    let log = g.bool(0.5);
    let vext = if g.bool(0.6) { g.range(0.1, 0.5) } else { 0.0 };
    let wall = g.bool(0.15);
    let pore_eps = if g.bool(0.4) { g.range(20.0, 100.0) } else { 0.0 };
    let relax = 8 + g.index(32);
    if pore_eps > 0.0 {
        // supercritical fluid in the pore: the Anderson pre-relaxation is reliable
        state.tau = state.tau.max(1.05);
        state.f_eta = state.f_eta.min(0.6);
    }
    StepCase {
        grid,
        spec,
        state,
        lanczos,
        amp,
        period,
        phase,
        log,
        vext,
        wall,
        pore_eps,
        relax,
    }
}

fn l2(a: &Array2<f64>) -> f64 {
    a.iter().map(|x| x * x).sum::<f64>().sqrt()
}

pub fn check_step(case: &StepCase, obs: &mut Obs) {
    let kind = case.grid.kind;
    obs.class(format!("{:?}", kind));
    obs.class(case.spec.label());
    obs.class(if case.log { "newton:log" } else { "newton:linear" });
    obs.class(format!("n={}", case.spec.n()));
    let Some(bulk) = build_bulk(&case.spec, &case.state, obs) else { return };
    // the perturbation must stay a perturbation: structure factor at k -> 0 of the bulk
    let s0 = {
        let st = &bulk.state;
        let dpdrho = st.dp_drho(feos::core::Contributions::Total).to_reduced();
        bulk.t / dpdrho
    };
    if !(s0 > 0.0 && s0 < 3.0) {
        obs.class("bulk unstable or too compressible: skipped");
        return;
    }
    let dft = bulk.state.eos.clone();
    if dft.bond_lengths(bulk.t).edge_count() > 0 {
        obs.class("heterosegmented(bonds)");
    }
    if case.spec.has_association() {
        obs.class("assoc");
    }
    if bulk.assoc_cond >= ASSOC_COND_MAX {
        obs.class("association beyond f64 conditioning (eps_AB/T > 25): skipped");
        return;
    }
    let grid = case.grid.build();
    let r = grid.axes()[0].grid.clone();
    let n = r.len();
    let l = case.grid.len[0];
    let nseg = bulk.rho_seg.len();
    let two_pi = 2.0 * std::f64::consts::PI;
    let vext: Array2<f64> = field(nseg, &[n], |s, ix| {
        if case.wall && r[ix[0]] > 0.8 * l {
            40.0
        } else {
            case.vext * (two_pi * r[ix[0]] / (0.37 * l) + s as f64).cos()
        }
    });
    let rho0: Array2<f64> = field(nseg, &[n], |s, ix| {
        bulk.rho_seg[s] * (-vext[[s, ix[0]]]).exp() * (1.0 + case.amp * (two_pi * r[ix[0]] / (case.period * l) + case.phase + 0.7 * s as f64).cos())
    });
    if case.vext != 0.0 {
        obs.class("external potential");
    }
    if case.wall {
        obs.class("wall region (potential 40 kT)");
    }
    let mut profile = DFTProfile::<Ix1, Model>::new(grid, &bulk.state, Some(vext.clone()), Some(&Density::from_reduced(rho0.clone())), case.lanczos);
    let mut rho0 = rho0;
    if case.pore_eps > 0.0 {
        // a physical pore: Pore1D of the same geometry with a Lennard-Jones 9-3 wall
        let geometry = match kind {
            GridKind::Cartesian1 => Geometry::Cartesian,
            GridKind::Spherical => Geometry::Spherical,
            _ => Geometry::Cylindrical,
        };
        let pot = ExternalPotential::LJ93 {
            sigma_ss: 3.0,
            epsilon_k_ss: case.pore_eps,
            rho_s: 0.08,
        };
        let size = l.clamp(15.0, 40.0);
        // potential cut off at 40 k_B T: below the level (50) at which the library freezes the
        // density of a grid point. Frozen points are excluded from the residual but not from the
        // operator of the Newton solver (rows rho_p dF'/m instead of zero), which has nothing to do
        // with the second derivatives tested here.
        let pore = Pore1D::new(geometry, size * ANGSTROM, pot, Some(n), Some(40.0));
        let Ok(mut pp) = pore.initialize(&bulk.state, None, None) else {
            obs.discard("pore initialisation failed");
            return;
        };
        if case.relax > 0 {
            let pre = DFTSolver::new(None).anderson_mixing(Some(true), Some(case.relax), Some(1e-6), None, None);
            if pp.profile.solve(Some(&pre), true).is_err() {
                obs.discard(format!("pre-relaxation returned an error [{:?} {}]", kind, case.spec.label()));
                return;
            }
        }
        obs.class(format!("Pore1D:{:?}", kind));
        rho0 = pp.profile.density.to_reduced();
        profile = pp.profile;
    }
    let res_at = |p: &mut DFTProfile<Ix1, Model>, rho: &Array2<f64>| -> Option<Array2<f64>> {
        p.density = Density::from_reduced(rho.clone());
        let (res, _, _) = p.residual(case.log).ok()?;
        res.iter().all(|x| x.is_finite()).then_some(res)
    };
    let Some(res0) = res_at(&mut profile, &rho0) else {
        obs.discard(format!(
            "residual of the initial profile failed [{}{} {}]",
            if case.pore_eps > 0.0 { "Pore1D" } else { "synthetic" },
            if case.wall && case.pore_eps == 0.0 { ", wall region" } else { "" },
            case.spec.label()
        ));
        return;
    };
    let lhs = if case.log { &rho0 * &res0 } else { res0.clone() };
    let lhs_norm = l2(&lhs);
    let res0_norm = l2(&res0);
    let rho_norm = l2(&rho0);
    if !(lhs_norm > 1e-9 * rho_norm) {
        obs.class("residual of the perturbed profile vanishes: skipped");
        return;
    }
    // Richardson-extrapolated central difference (h = 1/2, 1/4, 1/8) of the residual along `dir`:
    // (derivative, norm of the last extrapolation correction)
    let directional = |p: &mut DFTProfile<Ix1, Model>, dir: &Array2<f64>| -> Option<(Array2<f64>, Array2<f64>)> {
        // two independent extrapolations (h = 0.4, 0.2, 0.1 and h = 0.25, 0.125, 0.0625): the
        // error estimate is the largest of the two last extrapolation corrections and of the
        // difference between the two results. The last correction alone underestimates the error
        // when a kink of the functional (|lambda|, n3 cut-off, xi^2 clipping; reached where a sharp
        // wall makes weighted densities change sign) lies inside the stencil.
        let mut res: Vec<(Array2<f64>, Array2<f64>)> = vec![];
        for h0 in [0.4, 0.25] {
            let mut dd: Vec<Array2<f64>> = vec![];
            for h in [h0, 0.5 * h0, 0.25 * h0] {
                let rp = res_at(p, &(&rho0 + &(dir * h)))?;
                let rm = res_at(p, &(&rho0 - &(dir * h)))?;
                dd.push((rp - rm) / (2.0 * h));
            }
            let r1 = (&dd[1] * 4.0 - &dd[0]) / 3.0;
            let r2 = (&dd[2] * 4.0 - &dd[1]) / 3.0;
            let rr = (&r2 * 16.0 - &r1) / 15.0;
            let corr = &rr - &r2;
            res.push((rr, corr));
        }
        let (rb, cb) = res.pop().unwrap();
        let (ra, ca) = res.pop().unwrap();
        // element-wise bound |error| <= |corr_a| + |corr_b| + |r_a - r_b|
        let bound = ca.mapv(f64::abs) + cb.mapv(f64::abs) + (&ra - &rb).mapv(f64::abs);
        Some((rb, bound))
    };

    // ---- (a) one product of the library's Newton operator with a known vector. GMRES with a
    // single iteration returns step = y0 v0, v0 = lhs/|lhs|, and logs gamma_0 = |lhs| and
    // gamma_1 = s1 gamma_0; with c1 = sqrt(1 - s1^2), beta = gamma_0 c1 / |y0|:
    //   <v0, A v0> = c1 beta sign(y0),   |A v0 - <v0, A v0> v0| = s1 beta.
    // Both numbers are compared with the same projections of the numerical Jacobian. No linear
    // system has to be solved accurately for this comparison (the full Newton equation (b) below
    // is limited by the true residual of the library's GMRES, which is larger than the logged
    // one: classical Gram-Schmidt). ----
    let acond = bulk.assoc_cond;
    'projection: {
        let solver1 = DFTSolver::new(None).newton(Some(case.log), Some(1), Some(1), Some(1e-300));
        let mut p1 = profile.clone();
        p1.density = Density::from_reduced(rho0.clone());
        if p1.solve(Some(&solver1), true).is_err() {
            obs.discard("newton step (one GMRES iteration) failed");
            break 'projection;
        }
        let Some(log1) = p1.solver_log.clone() else { break 'projection };
        let gm1: Vec<f64> = log1.solver().iter().zip(log1.residual().iter()).filter(|(s, _)| **s == "GMRES").map(|(_, r)| *r).collect();
        if gm1.len() != 2 || !(gm1[0] > 0.0) {
            obs.class("projection: unexpected GMRES log: skipped");
            break 'projection;
        }
        let (g0, g1) = (gm1[0], gm1[1]);
        if !((g0 - lhs_norm).abs() <= 1e-9 * lhs_norm) {
            obs.inconclusive("projection: logged right-hand side differs from the public residual");
            break 'projection;
        }
        let v0 = &lhs / g0;
        let step1 = &p1.density.to_reduced() - &rho0;
        let y0 = (&step1 * &v0).sum();
        let off = l2(&(&step1 - &(&v0 * y0)));
        let rel1 = step1.iter().zip(rho0.iter()).map(|(d, r)| (d / r).abs()).fold(0.0, f64::max);
        if !(off <= 1e-8 * l2(&step1)) || !(rel1 < 0.8) || y0 == 0.0 {
            obs.discard("projection: step not parallel to the right-hand side (abs() in the solver reflected a density) or too large");
            break 'projection;
        }
        let s1 = (g1 / g0).min(1.0);
        let c1 = (1.0 - s1 * s1).sqrt();
        let beta = g0 * c1 / y0.abs();
        let h00 = c1 * beta * y0.signum();
        let h10 = s1 * beta;
        // direction y0 v0 (not the inferred step: abs() in the solver may have reflected entries of
        // negligible density, which the parallelism test above does not see)
        let dir1 = &v0 * y0;
        let Some((r, corr)) = directional(&mut profile, &dir1) else {
            obs.inconclusive("projection: neighbour residual failed");
            break 'projection;
        };
        let mult = |a: &Array2<f64>| if case.log { a * &rho0 } else { a.clone() };
        let w = mult(&r) / (-y0);
        let e = l2(&mult(&corr)) / y0.abs();
        let h00n = (&w * &v0).sum();
        let h10n = l2(&(&w - &(&v0 * h00n)));
        let bn = (h00n * h00n + h10n * h10n).sqrt();
        obs.count();
        if !(e <= 1e-6 * bn) {
            obs.inconclusive("projection: richardson error of the numerical Jacobian");
            break 'projection;
        }
        let d00 = (h00 - h00n).abs() / bn;
        let d10 = (h10 - h10n).abs() / bn;
        let variant = if case.pore_eps > 0.0 {
            "Pore1D"
        } else if case.wall {
            "wall region"
        } else {
            "smooth"
        };
        note(&format!("newton-step projection <v,Av> defect {:?} [{variant}]", kind), d00 / acond);
        note(&format!("newton-step projection |Av - <v,Av>v| defect {:?} [{variant}]", kind), d10 / acond);
        note(
            &format!("newton-step projection defect / tolerance {:?} [{variant}]", kind),
            d00.max(d10) / (50.0 * e / bn).max(if kind == GridKind::Polar { TOL_PROJECTION_POLAR } else { TOL_PROJECTION } * acond),
        );
        note("newton-step projection: richardson error / |Av|", e / bn);
        obs.class(format!("projection-defect<=1e{}", decade(d00.max(d10))));
        let tolp = (50.0 * e / bn).max(if kind == GridKind::Polar { TOL_PROJECTION_POLAR } else { TOL_PROJECTION } * acond);
        obs.ensure(d00 <= tolp && d10 <= tolp, || {
            format!(
                "Newton operator [{:?} n={} log={}]: <v,Av> = {h00:e} (library) vs {h00n:e} (numerical Jacobian), |Av - <v,Av>v| = {h10:e} vs {h10n:e}; relative defects {d00:e}, {d10:e} > {tolp:e} (numerical error {:e})",
                kind,
                n,
                case.log,
                e / bn
            )
        });
        if res0_norm > 1e-6 * rho_norm {
            obs.nontrivial();
        }
    }

    // ---- (b) the full Newton equation ----
    // The solver returns |rho + step|. The step can only be inferred from the new density if no
    // entry was reflected, i.e. step > -rho everywhere. To first order step/rho = ln(rho_p/rho) -
    // coupling, so the logarithmic residual has to be well below one in magnitude at every point
    // (measured: a reflected point at the axis of a cylindrical pore, ln(rho_p/rho) = -1.23,
    // inferred step -0.79999 rho, gave a defect of 4e-2).
    {
        let log_res = if case.log {
            Some(res0.clone())
        } else {
            profile.density = Density::from_reduced(rho0.clone());
            profile.residual(true).ok().map(|r| r.0)
        };
        let worst = log_res.map(|r| r.iter().fold(0.0f64, |m, x| m.max(x.abs()))).unwrap_or(f64::NAN);
        if !(worst <= 0.5) {
            // not a discard: the projections (a) of this case have been judged
            obs.class(format!(
                "full Newton equation not evaluated: |ln(rho_p/rho)| > 0.5 somewhere [{}]",
                if case.pore_eps > 0.0 { "Pore1D" } else if case.wall { "synthetic, wall region" } else { "synthetic" }
            ));
            return;
        }
    }
    // GMRES stops at tol*1e-2 (absolute, l2): ask for 1e-9 of the right-hand side
    let gm_rel: f64 = std::env::var("C17_GMRES_REL").ok().and_then(|s| s.parse().ok()).unwrap_or(1e-9);
    let tol = 1e2 * gm_rel * lhs_norm;
    let solver = DFTSolver::new(None).newton(Some(case.log), Some(1), Some(600), Some(tol));
    let mut p2 = profile.clone();
    p2.density = Density::from_reduced(rho0.clone());
    if let Err(e) = p2.solve(Some(&solver), true) {
        obs.discard(format!("newton step failed:{}", e.to_string().chars().take(40).collect::<String>()));
        return;
    }
    let Some(log) = p2.solver_log.clone() else {
        obs.fail("no solver log after a Newton step");
        return;
    };
    let names = log.solver();
    let resid = log.residual();
    let gm: Vec<f64> = names.iter().zip(resid.iter()).filter(|(s, _)| **s == "GMRES").map(|(_, r)| *r).collect();
    if gm.len() < 2 {
        obs.class("newton returned without a step: skipped");
        return;
    }
    let g_last = *gm.last().unwrap();
    obs.class(format!("gmres-iterations<={}", ((gm.len() - 1).div_ceil(50)) * 50));
    if !(g_last <= tol * 1e-2 * 1.000001) {
        obs.inconclusive("gmres-not-converged");
        return;
    }
    let rho1 = p2.density.to_reduced();
    let step = &rho1 - &rho0;
    let rel_step = step.iter().zip(rho0.iter()).map(|(d, r)| (d / r).abs()).fold(0.0, f64::max);
    note("newton-step: largest relative step", if rel_step < 0.8 { rel_step } else { 0.0 });
    if !(rel_step < 0.8) {
        obs.discard(format!(
            "newton step larger than 0.8 rho (abs() in the solver may have flipped a sign) [{}{}]",
            if case.pore_eps > 0.0 { "Pore1D" } else { "synthetic" },
            if case.wall && case.pore_eps == 0.0 { ", wall region" } else { "" }
        ));
        return;
    }
    // numerical directional derivative of the residual along the step (Richardson, h = 1/2, 1/4, 1/8)
    let Some((rr, corr)) = directional(&mut profile, &step) else {
        obs.inconclusive("neighbour residual failed");
        return;
    };
    // The library solves  mult * (res + res' step) = 0  in the l2 norm, mult = rho for Newton in
    // ln(rho) and 1 otherwise: the defect is measured in the same norm. (With the unweighted
    // logarithmic residual, grid points of negligible density where abs() reflected the update -
    // true step < -rho, inferred step > -rho - would dominate: measured 0.43-0.54 on three cases.)
    let weigh = |a: &Array2<f64>| if case.log { a * &rho0 } else { a.clone() };
    let err = l2(&weigh(&corr)) / lhs_norm;
    let defect = l2(&weigh(&(&res0 + &rr))) / lhs_norm;
    if std::env::var("C17_DEBUG").is_ok() {
        let v = &res0 + &rr;
        let mut idx: Vec<(usize, usize)> = (0..nseg).flat_map(|s| (0..n).map(move |i| (s, i))).collect();
        idx.sort_by(|a, b| v[[b.0, b.1]].abs().partial_cmp(&v[[a.0, a.1]].abs()).unwrap());
        let ext = profile.external_potential.clone();
        eprintln!("res0_norm/rho_norm = {:e}, defect = {defect:e}", res0_norm / rho_norm);
        for (s, i) in idx.iter().take(12) {
            eprintln!(
                "  seg {s} i {i} r {:.4} v {:e} res0 {:e} rho0 {:e} step/rho0 {:e} V {:.3}",
                r[*i],
                v[[*s, *i]],
                res0[[*s, *i]],
                rho0[[*s, *i]],
                step[[*s, *i]] / rho0[[*s, *i]],
                ext[[*s, *i]]
            );
        }
    }
    note(&format!("newton-step defect {:?}", kind), if err <= 1e-5 { defect } else { 0.0 });
    note("newton-step richardson error (conclusive cases)", if err <= 1e-5 { err } else { 0.0 });
    obs.count();
    if !(err <= 1e-5) {
        obs.inconclusive("richardson error of the numerical Jacobian");
        return;
    }
    obs.class(format!("newton-step-defect<=1e{}", decade(defect)));
    let tol_step = (50.0 * err).max(TOL_STEP * acond);
    obs.ensure(defect <= tol_step, || {
        format!(
            "Newton equation [{:?} n={} log={}]: |res + d res/d eps (rho + eps*step)| / |res| = {defect:e} (numerical error {err:e}, GMRES residual {:e} of {lhs_norm:e}, {} GMRES iterations)",
            kind,
            n,
            case.log,
            g_last,
            gm.len() - 1
        )
    });
    if res0_norm > 1e-6 * rho_norm {
        obs.nontrivial();
    }
}
/// full Newton equation: limited by the true residual of the library's GMRES (measured up to
/// 5.2e-4 of the right-hand side (90 000 cases; typically < 1e-8) while 1e-9..1e-13 is logged, independent of
/// the requested tolerance; an operator error shows as 4e-2 .. 5e-1)
const TOL_STEP: f64 = 3e-2;
/// projections of one operator-vector product (measured on 4000 cases of the pinned tree:
/// Cartesian and spherical <= 5e-9 (64 000 cases); polar axis, 512 points: <= 5.2e-6, 8.6e-9 at
/// 1024 points -
/// the polar mismatch is reproducible and independent of all solver tolerances. One cause was
/// isolated (PC-SAFT mixture of two associating components in a cylindrical pore): at wall points
/// the polar transform leaves |n2v| > n2, the effective site density rho0 = n0 (1 - n2v^2/n2^2) is
/// negative, `zero_density = rho.sum() < EPSILON` (src/association/mod.rs:404) is then true and
/// the solver skips the real iteration but still performs NDERIV Newton steps in dual numbers:
/// the energy density is 0 for f64, a one-step value for Dual64 and a two-step value for
/// HyperDual64, so first and second partial derivatives belong to different functions (2e-4
/// relative at those points, 3e-7 in the projections).)
const TOL_PROJECTION: f64 = 3e-7;
const TOL_PROJECTION_POLAR: f64 = 3e-4;

// =======================================================================================
// Part D: quadratic convergence of the Newton solver (black box, solver_log)
// =======================================================================================
#[derive(Serialize, Deserialize, Clone, Debug)]
pub struct ConvCase {
    pub spec: ModelSpec,
    pub state: StateSpec,
    /// 0 slit, 1 cylindrical, 2 spherical pore, 3 planar vapour-liquid interface (pure)
    pub system: u8,
    pub size: f64,
    pub n: usize,
    pub eps_ss: f64,
    pub log: bool,
}

pub fn decode_conv(g: &mut Gen) -> ConvCase {
    // planar interfaces are not used: their translation mode makes the Newton Jacobian nearly
    // singular (measured: residuals jump from 1e-8 back to 1e-4 between iterations)
    let system = g.index(3) as u8;
    let mut spec = gen_model(
        g,
        &GenCfg {
            families: FUNCTIONALS.to_vec(),
            min_comp: 1,
            max_comp: if system == 3 { 1 } else { 2 },
        },
    );
    acyclic_gc(&mut spec);
    let mut state = gen_state(g, spec.n());
    // supercritical fluids: no capillary condensation, Anderson pre-relaxation is reliable
    state.tau = if system == 3 { g.range(0.6, 0.9) } else { g.range(1.05, 2.0) };
    state.f_eta = g.range(0.02, 0.6);
    let n = match system {
        1 => 512,
        _ => 128 + g.index(385),
    };
    ConvCase {
        spec,
        state,
        system,
        size: g.range(15.0, 40.0),
        n,
        eps_ss: g.range(20.0, 150.0),
        log: g.bool(0.25),
    }
}

/// asymptotic regime of Newton: residuals below 1e-3 (relative to the density scale)
const NEWTON_ASYMPTOTIC: f64 = 1e-3;
/// floor of the relative residual (GMRES stops at 1e-13 absolute, roundoff)
const NEWTON_FLOOR: f64 = 1e-9;
/// lowest admitted observed order of convergence
const NEWTON_ORDER: f64 = 1.1;

pub fn check_conv(case: &ConvCase, obs: &mut Obs) {
    obs.class(case.spec.label());
    obs.class(["slit pore", "cylindrical pore", "spherical pore", "planar interface"][case.system as usize]);
    obs.class(if case.log { "newton:log" } else { "newton:linear" });
    let solver = DFTSolver::new(None)
        .anderson_mixing(Some(true), Some(80), Some(1e-3), None, None)
        .newton(Some(case.log), Some(12), Some(400), Some(1e-12));
    let (log, rho_scale) = if case.system == 3 {
        if case.spec.family == Family::FmtFunctional {
            obs.class("hard spheres have no vapour-liquid interface: skipped");
            return;
        }
        let Ok(model) = case.spec.build() else {
            obs.discard("build");
            return;
        };
        let tc = pure_tc(&case.spec, &model, 0);
        let t = (case.state.tau * tc).max(if case.spec.family == Family::SaftVRQMieFunctional { 20.0 } else { 0.0 });
        let Ok(vle) = PhaseEquilibrium::pure(&model, t * KELVIN, None, Default::default()) else {
            obs.discard("no vapour-liquid equilibrium");
            return;
        };
        let mut pi = PlanarInterface::from_tanh(&vle, case.n, 4.0 * case.size * ANGSTROM, tc * KELVIN, false);
        if pi.profile.solve(Some(&solver), true).is_err() {
            obs.discard("interface solver returned an error");
            return;
        }
        (pi.profile.solver_log.clone(), vle.liquid().density.to_reduced())
    } else {
        let Some(bulk) = build_bulk(&case.spec, &case.state, obs) else { return };
        let geometry = [Geometry::Cartesian, Geometry::Cylindrical, Geometry::Spherical][case.system as usize];
        let pot = ExternalPotential::LJ93 {
            sigma_ss: 3.0,
            epsilon_k_ss: case.eps_ss,
            rho_s: 0.08,
        };
        let pore = Pore1D::new(geometry, case.size * ANGSTROM, pot, Some(case.n), None);
        let Ok(mut pp) = pore.initialize(&bulk.state, None, None) else {
            obs.discard("pore initialisation failed");
            return;
        };
        if pp.profile.solve(Some(&solver), true).is_err() {
            obs.discard("pore solver returned an error");
            return;
        }
        let rmax = pp.profile.density.to_reduced().iter().fold(0.0f64, |a, b| a.max(*b));
        (pp.profile.solver_log.clone(), rmax)
    };
    let Some(log) = log else {
        obs.fail("no solver log");
        return;
    };
    let names = log.solver();
    let resid = log.residual();
    if std::env::var("C17_DEBUG").is_ok() {
        let mut last = "";
        let mut cnt = 0;
        for (s, r) in names.iter().zip(resid.iter()) {
            if *s == "GMRES" && last == "GMRES" && std::env::var("C17_DEBUG").as_deref() != Ok("2") {
                cnt += 1;
                if cnt % 25 != 0 {
                    continue;
                }
            } else {
                cnt = 0;
            }
            eprintln!("{s:24} {r:e}");
            last = s;
        }
    }
    // Newton residuals, and for each Newton iteration whether its GMRES run converged (tol*1e-2)
    let mut newton: Vec<(f64, bool)> = vec![];
    let mut last_gmres: Option<f64> = None;
    for (s, r) in names.iter().zip(resid.iter()) {
        if s.starts_with("Newton") {
            if let (Some(g), Some(prev)) = (last_gmres, newton.last_mut()) {
                prev.1 = g <= 1e-14 * 1.000001;
            }
            newton.push((*r / rho_scale, false));
            last_gmres = None;
        } else if *s == "GMRES" {
            last_gmres = Some(*r);
        }
    }
    if newton.len() < 2 {
        obs.class("anderson converged or failed before Newton started");
        return;
    }
    let lk = if case.log { "log" } else { "linear" };
    // The residual norm of the library includes the grid points whose density is frozen (external
    // potential >= 50 k_B T): rho_b exp(-(50 + ...)/m) there, a plateau of the sequence that is
    // not related to Newton's convergence. The convergence phase ends at twice that plateau.
    let plateau = newton.iter().map(|x| x.0).fold(f64::MAX, f64::min);
    // The level at which the residual of a particular profile stops decreasing quadratically is
    // not known a priori (frozen points, true accuracy of GMRES ~1e-6 per step, round-off of the
    // convolutions): measured as the lowest residual of the sequence. Only residuals at least
    // 1e3 x above that level (and above 1e-9) are used for the order estimate.
    let floor = NEWTON_FLOOR.max(1e3 * plateau);
    // observed order of convergence from the last three residuals above the floor of a run that
    // reached the floor: p = ln(r3/r2) / ln(r2/r1); quadratic convergence gives p -> 2, an inexact
    // Jacobian gives p -> 1. Judged only if the three residuals are in the asymptotic regime
    // (<= 1e-3 of the density scale), strictly decreasing, and their GMRES runs converged.
    let Some(e) = newton.iter().position(|x| x.0 <= floor) else {
        obs.class("Newton did not reach the floor within max_iter: no verdict");
        return;
    };
    if e < 3 {
        obs.class("fewer than three Newton residuals above the floor: no verdict");
        return;
    }
    let (r1, g1) = newton[e - 3];
    let (r2, g2) = newton[e - 2];
    let (r3, _) = newton[e - 1];
    if !(r1 <= NEWTON_ASYMPTOTIC && r1 > r2 && r2 > r3) {
        obs.class("last three residuals not monotone inside the asymptotic regime: no verdict");
        return;
    }
    if !(g1 && g2) {
        obs.class("gmres not converged inside Newton: no verdict");
        return;
    }
    let order = (r3 / r2).ln() / (r2 / r1).ln();
    note(&format!("newton({lk}): lowest observed order of convergence (as 2 - p)"), 2.0 - order);
    obs.class(format!("newton({lk}) order>={:.1}", (order * 5.0).floor() / 5.0));
    if case.log {
        // Newton in ln(rho): the step is an exact Newton step (part newton-step), but the solver
        // applies abs() to rho + step; where the logarithmic residual is large (steep walls) the
        // update is reflected and the iteration converges only linearly (measured: factors
        // 0.02-0.25 per iteration for chain molecules in slit pores). Observed, not asserted.
        obs.class(if order >= NEWTON_ORDER { "newton(log): superlinear" } else { "newton(log): linear (observed only)" });
        return;
    }
    obs.count();
    obs.ensure(order >= NEWTON_ORDER, || {
        format!(
            "Newton convergence is not quadratic [{} {} log={}]: last residuals above the floor {r1:e} -> {r2:e} -> {r3:e}, observed order {order:.3} < {NEWTON_ORDER}; Newton sequence {:?}",
            case.spec.label(),
            ["slit", "cylindrical", "spherical", "interface"][case.system as usize],
            case.log,
            newton.iter().map(|x| x.0).collect::<Vec<_>>()
        )
    });
    obs.class("order of convergence judged");
    obs.nontrivial();
}

// =======================================================================================
fn env(k: &str, d: u32) -> u32 {
    std::env::var(k).ok().and_then(|s| s.parse().ok()).unwrap_or(d)
}

pub fn run(ctx: &Ctx) {
    ctx.set_rule("variation (sampled): grid (Cartesian1/Spherical 64-4096 points, Polar 512-4096, Cartesian2/Periodical2 <= 48 per axis, Cylindrical 512-768 x 8-12, Cartesian3/Periodical3 <= 14 per axis; lengths 10-300 A, curvilinear axes 60-300 A; Lanczos None/1/2; 1-D grids twice as likely) x functional (PcSaft, FMT, gc-PC-SAFT (heterosegmented, acyclic), PeTS, SAFT-VRQ Mie through feos::ResidualModel; 3 FMT versions; 1-3 components) x T (0.5-1.6 T*) x smooth positive profile (tanh interface between 1e-4..0.05 and 0.3..0.85 of the maximum density with different compositions on both sides, or damped oscillation of amplitude 5-40 % around the dense value; per-segment shifts; cosine modulation along the other axes) x perturbation phi_s = w_c rho_ref_s B(r), B a C^3 bump of compact support centred at 0.3-0.7 L (0.3-0.6 L on curvilinear axes) with half-width <= L/4 (exactly zero at both boundaries), rho_ref_s the smallest density on the support, one component or mixed. Non-trivial: the density varies by > 10 % over the support of phi, |int dF/drho phi| > 1e-6 of its scale and the Ridders oracle was conclusive. shapes (lattice, exhaustive over its finite set): 3 one-dimensional geometries x 5-7 sizes x 3 lengths x 6 kernels (Theta, Delta, KR0, KR1, DeltaVec, identity) x 2 Lanczos settings, two overlapping compact fields. newton-step (sampled): 1-D grids 48-400 points (Polar 512), functionals as above (1-2 components), stable bulk states (T/(dp/drho) < 3), profile = bulk x exp(-V) x cosine perturbation of 2-12 % with optional smooth external potential (<= 1 kT) and optional wall region (V = 40 kT beyond 0.8 L; below the 50 kT at which the library freezes grid points), or a Pore1D (LJ 9-3) profile of the same geometry pre-relaxed by 8-39 Anderson iterations (supercritical); Newton in rho or ln rho; non-trivial if the initial residual exceeds 1e-6 rho and both GMRES and the numerical Jacobian converged. newton-convergence (sampled): LJ 9-3 pores of 15-40 A (slit, cylindrical, spherical), supercritical fluids, Anderson pre-relaxation to 1e-3 then Newton; non-trivial if the order of convergence could be judged. Distinct by hash of the canonical case JSON.");
    ctx.assume("oracle (1): Ridders (oracle::ridders, three initial steps) in eps of integrate(f[rho + eps phi]) with f from HelmholtzEnergyFunctional::functional_derivative; verdict rule of DESIGN 3.3 with the cancellation-safe scale sum_c sum_s int |dF_c/drho_s phi_s| (contributions evaluated with convolvers planned per contribution) and rtol: Cartesian/periodic 1e-7 (associating models 1e-6: site fractions iterated to 1e-10), plus 1e-13 int |f| for the roundoff of differencing integrals over the whole grid; spherical: max(1e-7, 2e-4 min(1, (128/n)^8)) in the natural measure 4 pi r^2 dr of the sine-transform pair, and with the grid's own weights (shell volumes 4 pi (r^2 + dr^2/12) dr) the same plus the rigorous bound (dr^2/12) 4 pi dr sum |terms| on the difference of the two discretisations; polar axis (quasi-discrete Hankel transform): 0.5 (n < 1024) / 0.05 (n >= 1024) of the sup-norm scale sum_c max |dF_c/drho| int |phi|");
    ctx.assume("curvilinear axes (spherical, polar): perturbations at least 3.5 local grid spacings wide and farther from the outer boundary than the largest kernel radius; profiles exactly flat within (largest kernel radius + 4 cells) of the outer boundary (the boundary value is continued beyond the grid by CurvilinearConvolver and vector weighted densities are taken to vanish there)");
    ctx.assume("oracle (2): |sum_k <psi_k, n_k[rho]> - <Conv^T psi, rho>| <= tol * sum_k |psi_k|_2 |n_k|_2 (norms with the grid's own weights, DFTProfile::integrate): Cartesian/periodic 1e-13; spherical: 1e-10 in the natural measure r^2 and 1e-13 + rigorous bound with the own weights; polar axis 0.02 (n < 1024) / 0.005 (n >= 1024); lattice `shapes`: polar transform pair 2e-3 for n >= 512");
    ctx.assume("oracle (3) is black-box (no hook): (a) one product of the library's Newton operator with v0 = rhs/|rhs| is reconstructed from a Newton step with a single GMRES iteration (step = y0 v0, logged gamma_0, gamma_1) and its projections <v0, A v0> and |A v0 - <v0, A v0> v0| are compared with those of two Richardson-extrapolated central differences of DFTProfile::residual (h = 0.4, 0.2, 0.1 and 0.25, 0.125, 0.0625; error estimate = last corrections + difference of the two): relative defect <= max(50 x error estimate, 3e-7 (polar axis 3e-4) x association conditioning); (b) the Newton equation solved by the library (GMRES logged as converged to 1e-9) against the same numerical derivative along the step: defect (in the norm of the library's linear system: weighted with rho for Newton in ln rho) <= max(50 x error estimate, 3e-2 x association conditioning), evaluated only if |ln(rho_p/rho)| <= 0.5 everywhere (otherwise abs() in the solver may have reflected the update and the step cannot be inferred) - limited by the true residual of the library's GMRES (classical Gram-Schmidt; measured up to 5.2e-4 whatever tolerance is requested)");
    ctx.assume("oracle (4): relative Newton residuals r_k <= 1e-3 with converged GMRES of Newton in rho: for runs that reach their floor (the larger of 1e-9 and 1e3 x the lowest residual of the sequence), the order of convergence observed on the last three residuals above the floor, p = ln(r3/r2)/ln(r2/r1), must be >= 1.1 (measured: >= 1.41 on the pinned tree, <= 1.0 typically for an inexact Jacobian; judged only if r1 <= 1e-3, r1 > r2 > r3 and GMRES converged); Newton in ln(rho) is observed only (its update is reflected by abs() where the logarithmic residual is large)");

    let var = PartCfg {
        name: "variation",
        genome_len: 130,
        cases_quick: env("C17_VAR", 500),
        cases_thorough: env("C17_VAR_THOROUGH", 50_000),
        panic: PanicPolicy::Count,
    };
    ctx.run_sampled(&var, &decode_var, &check_var);
    if env("C17_SHAPES", 1) == 1 {
        ctx.run_lattice("shapes", shape_items(), PanicPolicy::Violation, true, &check_shape);
    }
    let step = PartCfg {
        name: "newton-step",
        genome_len: 110,
        cases_quick: env("C17_STEP", 300),
        cases_thorough: env("C17_STEP_THOROUGH", 30_000),
        panic: PanicPolicy::Count,
    };
    ctx.run_sampled(&step, &decode_step, &check_step);
    let conv = PartCfg {
        name: "newton-convergence",
        genome_len: 110,
        cases_quick: env("C17_CONV", 100),
        cases_thorough: env("C17_CONV_THOROUGH", 10_000),
        panic: PanicPolicy::Count,
    };
    ctx.run_sampled(&conv, &decode_conv, &check_conv);
    let w = WORST.lock().unwrap();
    ctx.extra("measured_worst", serde_json::to_value(&*w).unwrap());
}

pub fn replay(ctx: &Ctx, part: &str, case: &Value) -> bool {
    let ok = match part {
        "variation" => ctx.replay_case::<VarCase>(case, &check_var),
        "shapes" => ctx.replay_case::<ShapeCase>(case, &check_shape),
        "newton-step" => ctx.replay_case::<StepCase>(case, &check_step),
        "newton-convergence" => ctx.replay_case::<ConvCase>(case, &check_conv),
        other => {
            eprintln!("unknown part {other}");
            std::process::exit(2);
        }
    };
    for (k, v) in WORST.lock().unwrap().iter() {
        println!("measured: {k} = {v:e}");
    }
    ok
}
