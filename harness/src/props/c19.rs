//! C19 — DFT results obey the Gibbs adsorption relation and their reported derivatives.
//!
//! Parts:
//! * `pore`   — generated pores: the profile is re-solved at neighbouring chemical potentials,
//!   pressures and temperatures; -dOmega/dmu = N, dN/dmu = dn_dmu, dN/dp = dn_dp,
//!   dN/dT = dn_dt, (partial molar) enthalpy of adsorption consistent with them.
//! * `henry`  — Henry limit: moles()/p -> henry_coefficients(), and
//!   ideal_gas_enthalpy_of_adsorption = R T (1 - dln(H R T)/dln T) by Ridders differentiation of
//!   henry_coefficients of pores re-initialised at T +- h.
//! * `planar` — surface tension independent of box length / resolution, decreasing in T and
//!   vanishing towards T_c, pDGT within 8 % of DFT.
use super::c18::{
    debug, dft_t_scale, dft_tc, gen_dft_model, gen_pore, pore_init, pure_vle, rel, wall_ratio, worst, worst_json, ChainSpec, GeomSpec,
    PoreSpec, Profile, StageSpec, WallSpec, MAX_POTENTIAL,
};
use crate::engine::{Ctx, Gen, Obs, PanicPolicy, PartCfg};
use crate::model::*;
use crate::oracle::ridders;
use feos::core::{Components, Contributions, ReferenceSystem, State};
use feos_dft::adsorption::PoreProfile1D;
use feos_dft::interface::PlanarInterface;
use feos_dft::PdgtFunctionalProperties;
use ndarray::{Array1, Array2};
use quantity::*;
use serde::{Deserialize, Serialize};
use serde_json::Value;
use std::sync::Arc;

// ---------------------------------------------------------------------------------------
// Solvers used by the harness
// ---------------------------------------------------------------------------------------
/// first solve of a pore: Anderson (log) > Anderson; the result is then polished with Newton
/// at the requested bulk state (Anderson mixing may move the bulk densities, finding
/// C18/anderson-bulk-drift)
fn coarse_chain(tol: f64) -> ChainSpec {
    ChainSpec {
        stages: vec![
            StageSpec::Anderson { log: true, damping: 0.15, mmax: 100, max_iter: 100, tol: (1e4 * tol).max(1e-5_f64.min(1e6 * tol)) },
            StageSpec::Anderson { log: false, damping: 0.15, mmax: 100, max_iter: 300, tol: 1e2 * tol },
        ],
    }
}

/// careful fallback for strongly adsorbing pores: heavily damped Picard steps in ln(rho) first
fn careful_chain(tol: f64) -> ChainSpec {
    ChainSpec {
        stages: vec![
            StageSpec::Picard { log: true, damping: Some(0.02), max_iter: 400, tol: 1e-3 },
            StageSpec::Anderson { log: true, damping: 0.03, mmax: 10, max_iter: 300, tol: (1e4 * tol).max(1e-7) },
            StageSpec::Anderson { log: false, damping: 0.05, mmax: 20, max_iter: 300, tol: 1e2 * tol },
        ],
    }
}

fn newton_chain(tol: f64) -> ChainSpec {
    ChainSpec { stages: vec![StageSpec::Newton { log: false, max_iter: 30, gmres: 300, tol }] }
}

/// absolute tolerance of the polished profiles: 1e-9 of the bulk density, at most 1e-13
fn polish_tol(bulk: &State<Model>) -> f64 {
    let rb = bulk.partial_density.to_reduced().iter().cloned().fold(f64::INFINITY, f64::min);
    (1e-9 * rb).min(1e-13)
}

pub struct Solved {
    pub pore: PoreProfile1D<Model>,
    n: Array1<f64>,
    omega: f64,
}

/// solve `pore` at `bulk` starting from `density` (or from the ideal-gas guess), polished with
/// Newton at exactly the requested bulk state
pub fn solve_at(
    pore: &PoreSpec,
    bulk: &State<Model>,
    density: Option<&Density<Array2<f64>>>,
) -> Result<Solved, String> {
    let tol = polish_tol(bulk);
    let start: Density<Array2<f64>> = match density {
        Some(d) => d.clone(),
        None => {
            let p0 = pore_init(bulk, pore, None)?;
            let p = match p0.clone().solve(coarse_chain(tol).build().as_ref()) {
                Ok(p) => p,
                Err(_) => p0.solve(careful_chain(tol).build().as_ref()).map_err(|e| format!("coarse solve: {e}"))?,
            };
            p.profile.density.clone()
        }
    };
    let p = pore_init(bulk, pore, Some(&start))?
        .solve(newton_chain(tol).build().as_ref())
        .map_err(|e| format!("newton: {e}"))?;
    // Newton never touches the bulk densities
    let a = bulk.partial_density.to_reduced();
    let b = p.profile.bulk.partial_density.to_reduced();
    if (0..a.len()).any(|i| rel(a[i], b[i]) > 1e-13) {
        return Err("bulk state changed by a Newton solve".into());
    }
    let n = p.profile.moles().to_reduced();
    let omega = p.grand_potential.map(|o| o.to_reduced()).unwrap_or(f64::NAN);
    if !omega.is_finite() || n.iter().any(|x| !x.is_finite()) {
        return Err("non-finite observables".into());
    }
    Ok(Solved { pore: p, n, omega })
}

/// reduced chemical potentials up to a function of T: mu_i = T ln rho_i + mu_res,i
fn mu_of(bulk: &State<Model>) -> Array1<f64> {
    let t = bulk.temperature.to_reduced();
    let rho = bulk.partial_density.to_reduced();
    let mur = bulk.residual_chemical_potential().to_reduced();
    Array1::from_shape_fn(rho.len(), |i| t * rho[i].ln() + mur[i])
}

// ---------------------------------------------------------------------------------------
// Part `pore`
// ---------------------------------------------------------------------------------------
#[derive(Serialize, Deserialize, Clone, Debug)]
pub struct PoreCase {
    pub spec: ModelSpec,
    /// T / sum x_i T_c,i
    pub tau: f64,
    /// sub-critical: bulk density / saturated vapour density of the least volatile component;
    /// super-critical: bulk density / (0.3 x critical density)
    pub f_rho: f64,
    pub x: Vec<f64>,
    pub pore: PoreSpec,
    /// relative step of the finite differences
    pub h: f64,
}

pub fn gen_pore_case(g: &mut Gen) -> PoreCase {
    let spec = gen_dft_model(
        g,
        &[Family::PetsFunctional, Family::PcSaftFunctional, Family::GcPcSaftFunctional, Family::SaftVRQMieFunctional],
        2,
    );
    PoreCase {
        tau: g.range(0.6, 1.5),
        f_rho: g.range(0.05, 0.6),
        x: g.simplex(spec.n(), 0.1),
        pore: gen_pore(g, &[256, 512, 256, 1024]),
        h: g.pick(&[1e-3, 2e-3, 5e-4]),
        spec,
    }
}

/// bulk vapour / supercritical gas of a pore case
pub fn pore_case_bulk(spec: &ModelSpec, model: &Arc<Model>, tau: f64, f_rho: f64, x: &[f64]) -> Result<State<Model>, String> {
    let t = tau * dft_t_scale(spec, model, x)?;
    // reference density: the smallest saturated vapour density among the sub-critical
    // components, 0.3 x smallest critical density if there is none
    let mut rho_ref = f64::INFINITY;
    for i in 0..spec.n() {
        let tc = dft_tc(spec, model, i)?;
        let sub = if spec.n() == 1 { model.clone() } else { Arc::new(model.subset(&[i])) };
        let r = if t < 0.98 * tc {
            pure_vle(&sub, t)?.vapor().density.to_reduced()
        } else {
            let cp = State::critical_point(&sub, None, None, Default::default()).map_err(|e| e.to_string())?;
            0.3 * cp.density.to_reduced()
        };
        rho_ref = rho_ref.min(r);
    }
    let rho = f_rho * rho_ref;
    let moles = Moles::from_reduced(Array1::from_vec(x.to_vec()));
    let bulk = State::new_nvt(model, t * KELVIN, Volume::from_reduced(1.0 / rho), &moles).map_err(|e| format!("bulk: {e}"))?;
    if bulk.dp_dv(Contributions::Total).to_reduced() >= 0.0 {
        return Err("bulk mechanically unstable".into());
    }
    if spec.n() > 1 && !bulk.is_stable(Default::default()).map_err(|e| format!("stability: {e}"))? {
        return Err("bulk unstable".into());
    }
    Ok(bulk)
}

/// verdict of a finite-difference comparison: `ana` analytic value, `d1` central difference with
/// step h, `d2` with step h/2. Richardson value (4 d2 - d1)/3 with error estimate |d2 - d1|/3.
fn fd_verdict(obs: &mut Obs, what: &str, ana: f64, d1: f64, d2: f64, scale: f64, rtol: f64) -> bool {
    fd_verdict_known(obs, what, ana, d1, d2, scale, rtol, None).is_some()
}

/// as `fd_verdict`; a mismatch is routed to the known finding `known` (if given). Returns the
/// relative deviation of a conclusive comparison; `assert = false` only measures.
fn fd_verdict_known(obs: &mut Obs, what: &str, ana: f64, d1: f64, d2: f64, scale: f64, rtol: f64, known: Option<&str>) -> Option<f64> {
    let d = (4.0 * d2 - d1) / 3.0;
    let err = (d2 - d1).abs() / 3.0;
    let s = scale.max(ana.abs()).max(d.abs());
    if !(err <= 0.2 * rtol * s) || !d.is_finite() {
        obs.inconclusive(format!("{}: step-size error", what.split(' ').next().unwrap()));
        return None;
    }
    obs.count();
    worst(&format!("{}: |analytic - numeric| / scale", what.split(' ').next().unwrap()), (ana - d).abs() / s);
    if debug() {
        eprintln!("DBG fd {what} rel={:.3e}", (ana - d).abs() / s);
    }
    if !((ana - d).abs() <= rtol * s + 10.0 * err) {
        let msg = format!("{what}: analytic {ana:e} vs re-solved {d:e} (h: {d1:e}, h/2: {d2:e}, scale {s:e}, rtol {rtol:e})");
        match known {
            // the plateau of the polar transform (finding POLAR) is of the order 1e-4..1e-2: larger
            // deviations of a response function are not attributed to it
            Some(id) if id == POLAR && (ana - d).abs() > 1e-2 * s => obs.fail(msg),
            Some(id) => obs.known_or_fail(id, msg),
            None => obs.fail(msg),
        }
    }
    Some((ana - d).abs() / s)
}

/// `density_derivative` solves the linear response with GMRES to an *absolute* residual of 1e-13
/// (profile/properties.rs:294); for dilute profiles the right-hand sides (rho_k, rho v_k,
/// rho x O(1/T)) are themselves that small and the solve stops early
pub const GMRES: &str = "C19/gmres-absolute-tolerance";
/// dn_dt (and the enthalpies of adsorption) are NaN: drho_dt evaluates the functional with dual
/// numbers on the whole grid, including the wall region where the weighted densities are FFT
/// noise around zero (0/0 in the AntiSymWhiteBear FMT, infinite slopes at zero elsewhere)
pub const ANTISYM: &str = "C19/nan-temperature-derivative";
/// cylindrical pores: the polar (Hankel-type) convolver is not the adjoint of itself to better
/// than 1e-3: -dOmega/dmu and N differ by a plateau that does not vanish with the resolution
pub const POLAR: &str = "C19/polar-gibbs-plateau";

/// DESIGN: 1e-4; doubled to keep a factor 50 over the worst value measured on non-dilute
/// profiles (3.7e-6 over 20 seeds)
const RTOL_FD: f64 = 2e-4;

pub fn check_pore(case: &PoreCase, obs: &mut Obs) {
    let spec = &case.spec;
    obs.class(spec.label());
    obs.class(case.pore.label());
    obs.class(format!("n={}", spec.n()));
    let model = match spec.build() {
        Ok(m) => m,
        Err(e) => return obs.discard(format!("build:{}", e.chars().take(30).collect::<String>())),
    };
    let bulk = match pore_case_bulk(spec, &model, case.tau, case.f_rho, &case.x) {
        Ok(b) => b,
        Err(e) => return obs.discard(format!("bulk:{}", e.chars().take(30).collect::<String>())),
    };
    obs.class(if case.tau < 1.0 { "T<Tc" } else { "T>Tc" });
    obs.class(if spec.has_association() { "assoc" } else { "non-assoc" });
    let nc = spec.n();
    let t = bulk.temperature.to_reduced();
    let rho0 = bulk.partial_density.to_reduced();
    let p0 = bulk.pressure(Contributions::Total).to_reduced();
    let x = bulk.molefracs.clone();
    let s0 = match solve_at(&case.pore, &bulk, None) {
        Ok(s) => s,
        Err(e) => return obs.discard(format!("reference solve:{}", e.chars().take(30).collect::<String>())),
    };
    let dens0 = s0.pore.profile.density.clone();
    // A nearly empty pore (long chain between hard walls: N ~ 1e-15) is below the resolution of the harness's own
    // solves: the neighbours start from the reference density, whose residual at the neighbouring bulk state
    // (~ h x density) is already below the absolute polishing tolerance, so they are returned unchanged and every
    // re-solved difference is exactly zero (false alarm of sweep seed 503). Such cases decide nothing.
    {
        let r = dens0.to_reduced();
        let rms = (r.iter().map(|v| v * v).sum::<f64>() / r.len().max(1) as f64).sqrt();
        if !(case.h * rms > 1e3 * polish_tol(&bulk)) {
            obs.class("nearly empty pore (density change of the neighbours below the polishing tolerance): no verdict");
            return obs.discard("nearly empty pore: below the resolution of the re-solved neighbours");
        }
    }
    // real adsorption: excess over the bulk density in the accessible volume
    let vol = {
        let mut one = Array2::zeros(s0.pore.profile.external_potential.raw_dim());
        for (o, v) in one.iter_mut().zip(s0.pore.profile.external_potential.iter()) {
            if *v + 1e-9 < MAX_POTENTIAL {
                *o = 1.0;
            }
        }
        s0.pore.profile.integrate_comp(&Density::from_reduced(one)).to_reduced()[0]
    };
    let excess = (0..nc).map(|i| (s0.n[i] - rho0[i] * vol).abs() / s0.n[i]).fold(0.0, f64::max);
    obs.class(if excess > 0.1 { "excess>10%" } else { "excess<=10%" });

    // analytic derivatives of the library
    let (dn_dmu, dn_dp, dn_dt) = match (s0.pore.profile.dn_dmu(), s0.pore.profile.dn_dp(), s0.pore.profile.dn_dt()) {
        (Ok(a), Ok(b), Ok(c)) => (a.to_reduced(), b.to_reduced(), c.to_reduced()),
        _ => return obs.discard("linear response (GMRES) failed"),
    };
    // signature of GMRES: 2-norm of the profile (the right-hand side of dn_dmu) below 1e-4, i.e.
    // the absolute tolerance 1e-13 is coarser than 1e-9 relative
    let rho_norm = s0.pore.profile.density.to_reduced().iter().map(|r| r * r).sum::<f64>().sqrt();
    let dilute = rho_norm < 1e-4;
    obs.class(if dilute { "dilute (|rho|_2 < 1e-4)" } else { "not dilute" });
    // cylindrical pores: the response functions inherit the plateau of the polar transform (seen:
    // dN/dT of a gc-PC-SAFT mixture 3.6e-3 off while -dOmega/dmu = N is 6e-3 off at 256 and 512 points)
    // (GMRES finding, narrowed after bd6e6810 made the tolerance relative to the norm of the whole
    // right-hand side: one component of a dilute MIXTURE can still be unresolved, pure dilute profiles are accurate)
    let trace = s0.n.len() >= 2;
    let known_lr: Option<&str> = if dilute && trace {
        Some(GMRES)
    } else if case.pore.geom == GeomSpec::Cylinder {
        Some(POLAR)
    } else {
        None
    };
    if dn_dmu.iter().chain(dn_dp.iter()).chain(dn_dt.iter()).any(|v| !v.is_finite()) {
        let msg = format!("non-finite derivative of a converged profile: dn_dmu {dn_dmu}, dn_dp {dn_dp}, dn_dt {dn_dt}");
        // signature of NAN_DERIV: the profile has points at the potential cut-off (walls), where
        // the weighted densities are FFT noise around zero
        if s0.pore.profile.external_potential.iter().any(|v| *v + 1e-9 >= MAX_POTENTIAL) {
            obs.known_or_fail(ANTISYM, msg);
        } else {
            obs.fail(msg);
        }
        return;
    }

    // neighbour states
    let h = case.h;
    let mk_nvt = |rho: &Array1<f64>| -> Result<State<Model>, String> {
        let tot: f64 = rho.sum();
        State::new_nvt(&model, bulk.temperature, Volume::from_reduced(1.0), &Moles::from_reduced(rho.clone()))
            .map_err(|e| e.to_string())
            .and_then(|s| if tot > 0.0 { Ok(s) } else { Err("empty".into()) })
    };
    // state at (T, p, x) on the branch of the reference state: Newton on the density to a relative
    // pressure error of 1e-14 (the library's density iteration stops at an absolute pressure
    // error of 1e-12 K/A^3, which is 10 % of the pressure of a very dilute vapour)
    let mk_npt = |tt: f64, pp: f64| -> Result<State<Model>, String> {
        let mut rho = bulk.density.to_reduced() * t / tt * pp / p0;
        let mut last = None;
        for _ in 0..60 {
            let s = State::new_nvt(
                &model,
                Temperature::from_reduced(tt),
                Volume::from_reduced(1.0 / rho),
                &Moles::from_reduced(x.clone()),
            )
            .map_err(|e| e.to_string())?;
            let err = s.pressure(Contributions::Total).to_reduced() - pp;
            let dpdrho = s.dp_drho(Contributions::Total).to_reduced();
            if !(dpdrho > 0.0) {
                return Err("npt neighbour unstable".into());
            }
            let done = err.abs() <= 1e-14 * pp.abs();
            last = Some(s);
            if done {
                break;
            }
            rho -= err / dpdrho;
            if !(rho > 0.0) {
                return Err("npt neighbour: negative density".into());
            }
        }
        let s = last.ok_or("npt")?;
        if ((s.pressure(Contributions::Total).to_reduced() - pp) / pp).abs() > 1e-12 {
            return Err("npt neighbour not converged".into());
        }
        if (s.density.to_reduced() / bulk.density.to_reduced() - 1.0).abs() < 0.1 {
            Ok(s)
        } else {
            Err("npt neighbour on another branch".into())
        }
    };
    // solve at a neighbour, starting from the reference density
    let at = |b: Result<State<Model>, String>| -> Option<(State<Model>, Solved)> {
        let b = b.ok()?;
        let s = solve_at(&case.pore, &b, Some(&dens0)).ok()?;
        Some((b, s))
    };
    // smoothness guard: second difference small against the first (no capillary condensation /
    // branch switch between the neighbours)
    let smooth = |m: &Solved, p: &Solved| -> bool {
        (0..nc).all(|i| {
            let first = (p.n[i] - m.n[i]).abs();
            let second = (p.n[i] - 2.0 * s0.n[i] + m.n[i]).abs();
            second <= 0.2 * first + 1e-9 * s0.n[i]
        })
    };

    let mut conclusive = 0;
    // ---- (a), (b): chemical potential directions: scale the bulk density of component k
    for k in 0..nc {
        let dir = |f: f64| {
            let mut r = rho0.clone();
            r[k] *= 1.0 + f;
            mk_nvt(&r)
        };
        let (Some(p1), Some(m1), Some(p2), Some(m2)) = (at(dir(h)), at(dir(-h)), at(dir(0.5 * h)), at(dir(-0.5 * h))) else {
            obs.inconclusive("mu: neighbour solve failed");
            continue;
        };
        if !smooth(&m1.1, &p1.1) {
            obs.inconclusive("mu: non-smooth (branch switch)");
            continue;
        }
        let dmu1 = mu_of(&p1.0) - mu_of(&m1.0);
        let dmu2 = mu_of(&p2.0) - mu_of(&m2.0);
        // Gibbs adsorption: dOmega = -sum_i N_i dmu_i. Compare per unit of the driving dmu_k.
        let ga = -(0..nc).map(|i| s0.n[i] * dmu1[i]).sum::<f64>() / dmu1[k];
        let ga2 = -(0..nc).map(|i| s0.n[i] * dmu2[i]).sum::<f64>() / dmu2[k];
        let d1 = (p1.1.omega - m1.1.omega) / dmu1[k];
        let d2 = (p2.1.omega - m2.1.omega) / dmu2[k];
        // the analytic side depends (weakly) on the step through dmu_i/dmu_k: use the h/2 value
        let _ = ga;
        let label = format!("gibbs[{:?}] -dOmega/dmu[{k}] = N", case.pore.geom);
        if case.pore.geom == GeomSpec::Slit {
            if fd_verdict(obs, &label, ga2, d1, d2, s0.n.sum(), RTOL_FD) {
                conclusive += 1;
            }
        } else {
            // Curved geometries: the discrete convolutions are not exact adjoints, the relation
            // holds up to a discretisation error (first order in the grid spacing for spheres).
            // Asserted: the deviation is below 1e-4 or shrinks by at least 35 % when the grid is
            // refined by a factor 2.
            let d = (4.0 * d2 - d1) / 3.0;
            let err = (d2 - d1).abs() / 3.0;
            let sc = s0.n.sum();
            if !(err <= 0.2 * RTOL_FD * sc) || !d.is_finite() {
                obs.inconclusive("gibbs: step-size error");
            } else {
                let dev1 = (ga2 - d).abs() / sc;
                worst(&format!("gibbs[{:?}]: deviation / N", case.pore.geom), dev1);
                conclusive += 1;
                obs.count();
                if dev1 > RTOL_FD && k == 0 && case.pore.n_grid <= 1024 {
                    let mut fine = case.pore.clone();
                    fine.n_grid *= 2;
                    let dev2 = (|| -> Option<f64> {
                        let r0 = solve_at(&fine, &bulk, None).ok()?;
                        let dens = r0.pore.profile.density.clone();
                        let bp = dir(0.5 * h).ok()?;
                        let bm = dir(-0.5 * h).ok()?;
                        let sp = solve_at(&fine, &bp, Some(&dens)).ok()?;
                        let sm = solve_at(&fine, &bm, Some(&dens)).ok()?;
                        let dmu = mu_of(&bp) - mu_of(&bm);
                        let ga = -(0..nc).map(|i| r0.n[i] * dmu[i]).sum::<f64>() / dmu[k];
                        let dd = (sp.omega - sm.omega) / dmu[k];
                        Some((ga - dd).abs() / r0.n.sum())
                    })();
                    match dev2 {
                        None => obs.inconclusive("gibbs: refined solve failed"),
                        Some(dev2) => {
                            worst(&format!("gibbs[{:?}]: deviation(2n) / deviation(n)", case.pore.geom), dev2 / dev1);
                            obs.class(format!("gibbs refined [{:?}]", case.pore.geom));
                            if !(dev2 <= (0.65 * dev1).max(RTOL_FD)) {
                                let msg = format!(
                                    "{label}: relative deviation {dev1:e} at {} points, {dev2:e} at {} points: does not vanish with the resolution",
                                    case.pore.n_grid, fine.n_grid
                                );
                                if case.pore.geom == GeomSpec::Cylinder {
                                    obs.known_or_fail(POLAR, msg);
                                } else {
                                    obs.fail(msg);
                                }
                            }
                        }
                    }
                }
            }
        }
        // dN_i = sum_j dn_dmu[j][i] dmu_j
        for i in 0..nc {
            let pred = |dmu: &Array1<f64>| (0..nc).map(|j| dn_dmu[[j, i]] * dmu[j]).sum::<f64>() / dmu[k];
            let d1 = (p1.1.n[i] - m1.1.n[i]) / dmu1[k];
            let d2 = (p2.1.n[i] - m2.1.n[i]) / dmu2[k];
            // entries of dn_dmu are accurate relative to the dominant response of N_i (GMRES tolerance)
            let scale = (0..nc).map(|j| (dn_dmu[[j, i]] * dmu2[j] / dmu2[k]).abs()).sum::<f64>().max(dn_dmu[[i, i]].abs());
            if fd_verdict_known(obs, &format!("dn_dmu[{:?}] dN[{i}]/dmu[{k}]", case.pore.geom), pred(&dmu2), d1, d2, scale, RTOL_FD, known_lr).is_some() {
                conclusive += 1;
            }
        }
    }
    // Maxwell symmetry of dn_dmu
    for i in 0..nc {
        for j in i + 1..nc {
            let s = dn_dmu[[i, i]].abs().max(dn_dmu[[j, j]].abs());
            worst(&format!("dn_dmu[{:?}] asymmetry / scale", case.pore.geom), (dn_dmu[[i, j]] - dn_dmu[[j, i]]).abs() / s);
            // exact for the cartesian convolver (measured <= 2e-7 of the diagonal, 1e-5 allowed); in curved geometries a
            // discretisation effect of the same origin as the Gibbs deviation (statistic only)
            if case.pore.geom == GeomSpec::Slit && !dilute {
                obs.close_scaled(&format!("dn_dmu symmetric [{i},{j}]"), dn_dmu[[i, j]], dn_dmu[[j, i]], 1e-5, s);
            }
        }
    }
    // ---- (c): pressure at fixed T, x
    {
        let dir = |f: f64| mk_npt(t, p0 * (1.0 + f));
        if let (Some(p1), Some(m1), Some(p2), Some(m2)) = (at(dir(h)), at(dir(-h)), at(dir(0.5 * h)), at(dir(-0.5 * h))) {
            if smooth(&m1.1, &p1.1) {
                for i in 0..nc {
                    let d1 = (p1.1.n[i] - m1.1.n[i]) / (2.0 * h * p0);
                    let d2 = (p2.1.n[i] - m2.1.n[i]) / (h * p0);
                    if fd_verdict_known(obs, &format!("dn_dp[{:?}] dN[{i}]/dp", case.pore.geom), dn_dp[i], d1, d2, s0.n[i] / p0 * 1e-2, RTOL_FD, known_lr).is_some() {
                        conclusive += 1;
                    }
                }
            } else {
                obs.inconclusive("p: non-smooth (branch switch)");
            }
        } else {
            obs.inconclusive("p: neighbour solve failed");
        }
    }
    // ---- (d): temperature at fixed p, x (the pore is re-initialised: V_ext/kT and the
    // temperature-dependent diameters change)
    let mut dndt_fd: Option<Array1<f64>> = None;
    {
        let dir = |f: f64| mk_npt(t * (1.0 + f), p0);
        if let (Some(p1), Some(m1), Some(p2), Some(m2)) = (at(dir(h)), at(dir(-h)), at(dir(0.5 * h)), at(dir(-0.5 * h))) {
            if smooth(&m1.1, &p1.1) {
                let mut fd = Array1::zeros(nc);
                let mut all = true;
                for i in 0..nc {
                    let d1 = (p1.1.n[i] - m1.1.n[i]) / (2.0 * h * t);
                    let d2 = (p2.1.n[i] - m2.1.n[i]) / (h * t);
                    fd[i] = (4.0 * d2 - d1) / 3.0;
                    if fd_verdict_known(obs, &format!("dn_dt[{:?}{}] dN[{i}]/dT", case.pore.geom, if dilute { ",dilute" } else { "" }), dn_dt[i], d1, d2, s0.n[i] / t * 1e-2, RTOL_FD, known_lr).is_some() {
                        conclusive += 1;
                    } else {
                        all = false;
                    }
                }
                if all {
                    dndt_fd = Some(fd);
                }
            } else {
                obs.inconclusive("T: non-smooth (branch switch)");
            }
        } else {
            obs.inconclusive("T: neighbour solve failed");
        }
    }
    // ---- (e): enthalpy of adsorption: dn_dmu h = -T dn_dt, and its x-weighted sum
    match (s0.pore.partial_molar_enthalpy_of_adsorption(), s0.pore.enthalpy_of_adsorption()) {
        (Ok(hp), Ok(ht)) => {
            let hp = hp.to_reduced();
            let ht = ht.to_reduced();
            // defining linear system with the library's own (separately validated) derivatives
            for i in 0..nc {
                // row i of dn_dmu^T h: sum_j dn_dmu[i][j] h_j  (LU::new(a).solve(b) solves a h = b)
                let lhs: f64 = (0..nc).map(|j| dn_dmu[[i, j]] * hp[j]).sum();
                let scale: f64 = (0..nc).map(|j| (dn_dmu[[i, j]] * hp[j]).abs()).sum::<f64>() + (t * dn_dt[i]).abs();
                worst("enthalpy system residual / scale", (lhs + t * dn_dt[i]).abs() / scale);
                obs.close_scaled(&format!("dn_dmu h = -T dn_dt, row {i}"), lhs, -t * dn_dt[i], 1e-9, scale);
            }
            let sum: f64 = (0..nc).map(|i| x[i] * hp[i]).sum();
            obs.close_scaled("enthalpy_of_adsorption = sum x_i h_i", ht, sum, 1e-12, (0..nc).map(|i| (x[i] * hp[i]).abs()).sum());
            // pure: against the re-solved derivatives only
            if nc == 1 {
                if let Some(fd) = &dndt_fd {
                    let h_fd = -t * fd[0] / dn_dmu[[0, 0]];
                    worst("enthalpy (pure) vs re-solved dN/dT / scale", (hp[0] - h_fd).abs() / hp[0].abs().max(t));
                    obs.count();
                    if (hp[0] - h_fd).abs() > 3e-4 * hp[0].abs().max(t) {
                        let msg = format!("partial molar enthalpy of adsorption (pure) {:e} vs -T (dN/dT)_resolved / dn_dmu = {h_fd:e}", hp[0]);
                        match known_lr {
                            Some(id) => obs.known_or_fail(id, msg),
                            None => obs.fail(msg),
                        }
                    }
                }
            }
        }
        _ => obs.class("enthalpy of adsorption: Err"),
    }
    if conclusive >= 3 {
        obs.class("conclusive>=3");
        if excess > 0.1 {
            obs.nontrivial();
        }
    }
}

// ---------------------------------------------------------------------------------------
// Part `henry`
// ---------------------------------------------------------------------------------------
#[derive(Serialize, Deserialize, Clone, Debug)]
pub struct HenryCase {
    pub spec: ModelSpec,
    pub tau: f64,
    pub x: Vec<f64>,
    pub pore: PoreSpec,
    /// dilution: max local density / reference density
    pub eps: f64,
}

/// `henry_coefficients` panics by design unless every m_i = 1 (spherical or heterosegmented)
fn spherical_or_hetero(spec: &ModelSpec) -> bool {
    match spec.family {
        Family::PcSaftFunctional => spec.pure.iter().all(|p| p["model_record"]["m"].as_f64() == Some(1.0)),
        _ => true,
    }
}

pub fn gen_henry_case(g: &mut Gen) -> HenryCase {
    let fam = g.pick(&[Family::PetsFunctional, Family::GcPcSaftFunctional, Family::PcSaftFunctional, Family::SaftVRQMieFunctional]);
    let mut spec = gen_dft_model(g, &[fam], 2);
    if fam == Family::PcSaftFunctional {
        // spherical PC-SAFT molecules: shipped / random records with m set to 1
        for p in spec.pure.iter_mut() {
            p["model_record"]["m"] = serde_json::json!(1.0);
        }
        spec.source = format!("m=1:{}", spec.source);
    }
    HenryCase {
        tau: g.range(0.6, 1.5),
        x: g.simplex(spec.n(), 0.1),
        pore: gen_pore(g, &[256, 512, 1024]),
        eps: g.log_range(1e-9, 1e-7),
        spec,
    }
}

pub fn check_henry(case: &HenryCase, obs: &mut Obs) {
    let spec = &case.spec;
    obs.class(spec.label());
    obs.class(case.pore.label());
    obs.class(format!("n={}", spec.n()));
    if !spherical_or_hetero(spec) {
        return obs.discard("not spherical / heterosegmented");
    }
    let model = match spec.build() {
        Ok(m) => m,
        Err(e) => return obs.discard(format!("build:{}", e.chars().take(30).collect::<String>())),
    };
    let nc = spec.n();
    let tscale = match dft_t_scale(spec, &model, &case.x) {
        Ok(t) => t,
        Err(e) => return obs.discard(format!("tc:{e}")),
    };
    let t = case.tau * tscale;
    let moles = Moles::from_reduced(Array1::from_vec(case.x.clone()));
    let bulk_at = |tt: f64, rho: f64| -> Result<State<Model>, String> {
        State::new_nvt(&model, tt * KELVIN, Volume::from_reduced(1.0 / rho), &moles).map_err(|e| e.to_string())
    };
    // dilution: bulk density such that the largest Boltzmann-weighted density stays below eps x 1e-3 / A^3
    let probe = match bulk_at(t, 1e-12).and_then(|b| pore_init(&b, &case.pore, None)) {
        Ok(p) => p,
        Err(e) => return obs.discard(format!("init:{}", e.chars().take(30).collect::<String>())),
    };
    let vmin = probe.profile.external_potential.iter().cloned().fold(f64::INFINITY, f64::min);
    let m_hetero = probe.profile.density.shape()[0] as f64 / nc as f64;
    // a heterosegmented molecule collects the wells of all its segments
    let rho_b = case.eps * 1e-3 * (vmin.min(0.0) * m_hetero.max(1.0)).exp();
    let bulk = match bulk_at(t, rho_b) {
        Ok(b) => b,
        Err(e) => return obs.discard(format!("bulk:{}", e.chars().take(30).collect::<String>())),
    };
    let pore0 = match pore_init(&bulk, &case.pore, None) {
        Ok(p) => p,
        Err(e) => return obs.discard(format!("init:{}", e.chars().take(30).collect::<String>())),
    };
    let hc = pore0.henry_coefficients().to_reduced();
    if hc.iter().any(|h| !h.is_finite() || *h <= 0.0) {
        return obs.fail(format!("henry_coefficients not finite / positive: {hc}"));
    }
    // ---- N / p_i -> H_i. Henry's law is a limit: the bulk density is lowered by factors 1e-4
    // until N/(x p) stops changing (association and adsorbate-adsorbate attraction in deep wells
    // persist to very low densities). The solver tolerance is absolute, so it is scaled with
    // the bulk density to resolve the dilute profile.
    let solve_ratio = |rho: f64| -> Result<(Array1<f64>, bool), String> {
        let b = bulk_at(t, rho)?;
        let p0 = pore_init(&b, &case.pore, None)?;
        let rb_min = b.partial_density.to_reduced().iter().cloned().fold(f64::INFINITY, f64::min);
        let tol = 1e-9 * rb_min;
        let chain = ChainSpec {
            stages: vec![
                StageSpec::Picard { log: false, damping: Some(1.0), max_iter: 50, tol },
                StageSpec::Newton { log: false, max_iter: 10, gmres: 100, tol },
            ],
        };
        let p = p0.solve(chain.build().as_ref()).map_err(|e| e.to_string())?;
        let n = p.profile.moles().to_reduced();
        let pr = p.profile.bulk.pressure(Contributions::Total).to_reduced();
        let xb = p.profile.bulk.molefracs.clone();
        let vol = {
            let mut one = Array2::zeros(p.profile.external_potential.raw_dim());
            for (o, v) in one.iter_mut().zip(p.profile.external_potential.iter()) {
                if *v + 1e-9 < MAX_POTENTIAL {
                    *o = 1.0;
                }
            }
            p.profile.integrate_comp(&Density::from_reduced(one)).to_reduced()[0]
        };
        let rho0 = p.profile.bulk.partial_density.to_reduced();
        let excess = (0..nc).any(|i| (n[i] - rho0[i] * vol).abs() > 0.1 * n[i]);
        Ok((Array1::from_shape_fn(nc, |i| n[i] / (xb[i] * pr)), excess))
    };
    let mut prev: Option<Array1<f64>> = None;
    let mut limit: Option<(Array1<f64>, bool)> = None;
    let mut rho = rho_b;
    for _ in 0..4 {
        match solve_ratio(rho) {
            Err(e) => {
                obs.class(format!("solve err:{}", e.chars().take(24).collect::<String>()));
                break;
            }
            Ok((r, ex)) => {
                if let Some(p) = &prev {
                    if (0..nc).all(|i| rel(r[i], p[i]) < 1e-6) {
                        limit = Some((r, ex));
                        break;
                    }
                }
                prev = Some(r);
                rho *= 1e-4;
            }
        }
    }
    match limit {
        None => obs.inconclusive("henry: N/p did not become independent of p"),
        Some((r, ex)) => {
            for i in 0..nc {
                worst("henry: |N/(x p) - H| / H", rel(r[i], hc[i]));
                obs.close(&format!("Henry limit N[{i}]/(x p) = henry_coefficients"), r[i], hc[i], 1e-4, 0.0);
            }
            if ex {
                obs.class("excess>10%");
                obs.nontrivial();
            }
        }
    }
    // ---- ideal-gas enthalpy of adsorption against d ln(H T)/dT by Ridders
    let q = pore0.ideal_gas_enthalpy_of_adsorption().to_reduced();
    for i in 0..nc {
        let f = |tt: f64| -> Option<f64> {
            let b = bulk_at(tt, rho_b).ok()?;
            let p = pore_init(&b, &case.pore, None).ok()?;
            let h = p.henry_coefficients().to_reduced()[i];
            if h.is_finite() && h > 0.0 {
                Some((h * tt).ln())
            } else {
                None
            }
        };
        match ridders(f, t, 2e-2 * t) {
            None => obs.inconclusive("henry: neighbour failed"),
            Some((d, err)) => {
                // q_i = T (1 - T dln(H T)/dT)
                let q_num = t * (1.0 - t * d);
                let q_err = t * t * err;
                let s = q[i].abs().max(t);
                if q_err > 1e-6 * s {
                    obs.inconclusive("henry: Ridders error");
                } else {
                    worst("henry: |q_ig - numeric| / scale", (q[i] - q_num).abs() / s);
                    obs.count();
                    if (q[i] - q_num).abs() > 1e-5 * s + 50.0 * q_err {
                        obs.fail(format!(
                            "ideal_gas_enthalpy_of_adsorption[{i}] = {:e} but T(1 - T dln(H T)/dT) = {q_num:e} (Ridders error {q_err:e})",
                            q[i]
                        ));
                    }
                }
            }
        }
    }
}

// ---------------------------------------------------------------------------------------
// Part `planar`
// ---------------------------------------------------------------------------------------
#[derive(Serialize, Deserialize, Clone, Debug)]
pub enum PlanarKind {
    /// same interface in two boxes
    Size { tau: f64, l1: f64, n1: usize, l2: f64, n2: usize },
    /// gamma(T) on a 6-point grid and at 0.97 T_c
    Temperature,
    /// pDGT against DFT
    Pdgt { tau: f64 },
}

#[derive(Serialize, Deserialize, Clone, Debug)]
pub struct PlanarCase {
    pub spec: ModelSpec,
    pub kind: PlanarKind,
}

pub fn gen_planar_case(g: &mut Gen) -> PlanarCase {
    let kind_idx = g.index(4);
    let fams: &[Family] = if kind_idx == 3 {
        // pDGT is implemented for molecular (non-heterosegmented) functionals of pure components
        &[Family::PcSaftFunctional, Family::PetsFunctional, Family::SaftVRQMieFunctional]
    } else {
        &[Family::PcSaftFunctional, Family::PetsFunctional, Family::GcPcSaftFunctional, Family::SaftVRQMieFunctional]
    };
    let spec = gen_dft_model(g, fams, 1);
    let kind = match kind_idx {
        0 | 1 => PlanarKind::Size {
            tau: g.range(0.5, 0.95),
            l1: g.range(60.0, 300.0),
            n1: g.pick(&[512usize, 256, 1024, 2048, 4096]),
            l2: g.range(60.0, 300.0),
            n2: g.pick(&[1024usize, 512, 256, 2048, 4096]),
        },
        2 => PlanarKind::Temperature,
        _ => PlanarKind::Pdgt { tau: g.range(0.5, 0.95) },
    };
    PlanarCase { spec, kind }
}

/// surface tension (reduced, K/A^2) of a planar interface solved with the default solver
/// followed by Newton; None if the solve fails or the interface left the box
fn gamma_of(model: &Arc<Model>, tc: f64, tau: f64, n: usize, l: f64) -> Result<(f64, Profile), String> {
    let vle = pure_vle(model, tau * tc)?;
    let p = PlanarInterface::from_tanh(&vle, n, l * ANGSTROM, tc * KELVIN, false)
        .solve(None)
        .map_err(|e| format!("solve: {e}"))?;
    let p = p.clone().solve(newton_chain(1e-12).build().as_ref()).unwrap_or(p);
    let g = p.surface_tension.map(|g| g.to_reduced()).unwrap_or(f64::NAN);
    if !g.is_finite() {
        return Err("gamma not finite".into());
    }
    let r = p.profile.density.to_reduced();
    let nn = r.shape()[1];
    let (rl, rv) = (vle.liquid().density.to_reduced(), vle.vapor().density.to_reduced());
    if !((r[[0, 0]] / rl - 1.0).abs() < 0.02 && (r[[0, nn - 1]] / rv - 1.0).abs() < 0.02) {
        return Err("interface lost".into());
    }
    Ok((g, p.profile))
}

/// pDGT is a gradient approximation: measured |gamma_pdgt/gamma_dft - 1| <= 4.7 % (PC-SAFT,
/// SAFT-VRQ Mie) and a smooth universal curve for PeTS that reaches 9.8 % at T/Tc = 0.5
/// (DESIGN assumed 8 % from propane and water); an implementation error (factor 2 under the
/// square root, a missing contribution to the influence parameter) changes the value by > 30 %.
const PDGT_TOL: f64 = 0.15;
/// `solve_pdgt` returns Ok(NaN) when the excess grand potential density is slightly negative
/// at an end point (sqrt of a negative number, pdgt.rs:203)
pub const PDGT_NAN: &str = "C19/pdgt-nan";

/// largest grid spacing (in units of the smallest segment diameter) for which the size /
/// resolution clause is asserted
const MAX_DZ_SIGMA: f64 = 0.5;
/// smallest (distance to the wall)/(90-10 width)
const MIN_WALL_RATIO: f64 = 3.0;

fn sigma_min(spec: &ModelSpec, model: &Arc<Model>) -> f64 {
    let _ = spec;
    use feos_dft::adsorption::FluidParameters;
    model.sigma_ff().iter().cloned().fold(f64::INFINITY, f64::min)
}

pub fn check_planar(case: &PlanarCase, obs: &mut Obs) {
    let spec = &case.spec;
    obs.class(spec.label());
    let model = match spec.build() {
        Ok(m) => m,
        Err(e) => return obs.discard(format!("build:{}", e.chars().take(30).collect::<String>())),
    };
    let tc = match dft_tc(spec, &model, 0) {
        Ok(t) => t,
        Err(e) => return obs.discard(format!("tc:{e}")),
    };
    match &case.kind {
        PlanarKind::Size { tau, l1, n1, l2, n2 } => {
            obs.class("size");
            let sig = sigma_min(spec, &model);
            let (a, b) = match (gamma_of(&model, tc, *tau, *n1, *l1), gamma_of(&model, tc, *tau, *n2, *l2)) {
                (Ok(a), Ok(b)) => (a, b),
                (Err(e), _) | (_, Err(e)) => return obs.discard(format!("solve:{}", e.chars().take(24).collect::<String>())),
            };
            let dz = (l1 / *n1 as f64).max(l2 / *n2 as f64) / sig;
            let wr = wall_ratio(&a.1).min(wall_ratio(&b.1));
            worst(
                if dz <= MAX_DZ_SIGMA && wr >= MIN_WALL_RATIO { "size: |dgamma|/gamma (asserted domain)" } else { "size: |dgamma|/gamma (outside)" },
                rel(a.0, b.0),
            );
            if debug() {
                eprintln!("DBG size rel={:.3e} dz/sigma={dz:.3} wall_ratio={wr:.2} tau={tau} l=({l1:.0},{l2:.0}) n=({n1},{n2})", rel(a.0, b.0));
            }
            if dz > MAX_DZ_SIGMA {
                obs.class("size: grid coarser than 0.5 sigma (not asserted)");
                return;
            }
            if wr < MIN_WALL_RATIO {
                obs.class("size: interface closer than 3 widths to a wall (not asserted)");
                return;
            }
            obs.close("surface tension independent of box length and resolution", a.0, b.0, 1e-3, 0.0);
            if (l1 / l2 - 1.0).abs() > 0.1 || n1 != n2 {
                obs.nontrivial();
            }
        }
        PlanarKind::Temperature => {
            obs.class("temperature");
            let taus = [0.5, 0.59, 0.68, 0.77, 0.86, 0.95];
            let mut g = vec![];
            for tau in taus {
                // wide interfaces near T_c need a long box
                match gamma_of(&model, tc, tau, 1024, if tau > 0.9 { 300.0 } else { 150.0 }) {
                    Ok((v, _)) => g.push(v),
                    Err(e) => return obs.discard(format!("solve:{}", e.chars().take(24).collect::<String>())),
                }
            }
            for k in 1..g.len() {
                obs.ensure(g[k] < g[k - 1] && g[k] > 0.0, || {
                    format!("surface tension not strictly decreasing / positive: gamma({}) = {:e}, gamma({}) = {:e}", taus[k - 1], g[k - 1], taus[k], g[k])
                });
            }
            match gamma_of(&model, tc, 0.97, 2048, 600.0) {
                Ok((v, _)) => {
                    worst("gamma(0.97 Tc)/gamma(0.5 Tc)", v / g[0]);
                    obs.ensure(v > 0.0 && v / g[0] < 0.1, || format!("gamma(0.97 Tc)/gamma(0.5 Tc) = {:e}", v / g[0]));
                    obs.nontrivial();
                }
                Err(e) => obs.class(format!("0.97 Tc: {}", e.chars().take(24).collect::<String>())),
            }
        }
        PlanarKind::Pdgt { tau } => {
            obs.class("pdgt");
            let vle = match pure_vle(&model, tau * tc) {
                Ok(v) => v,
                Err(e) => return obs.discard(format!("vle:{}", e.chars().take(24).collect::<String>())),
            };
            let gp = match model.solve_pdgt(&vle, 198, 0, None) {
                Ok((_, g)) => g.to_reduced(),
                Err(e) => return obs.discard(format!("pdgt:{}", e.to_string().chars().take(24).collect::<String>())),
            };
            let l = if *tau > 0.9 { 300.0 } else { 150.0 };
            let gd = match gamma_of(&model, tc, *tau, 2048, l) {
                Ok((g, p)) if wall_ratio(&p) >= MIN_WALL_RATIO => g,
                Ok(_) => return obs.discard("interface too close to the wall"),
                Err(e) => return obs.discard(format!("solve:{}", e.chars().take(24).collect::<String>())),
            };
            obs.class(if spec.has_association() { "assoc" } else { "non-assoc" });
            obs.class(if spec.has_polar() { "polar" } else { "non-polar" });
            worst(
                &format!("pdgt[{}{}]: |gamma_pdgt/gamma_dft - 1|", spec.label(), if spec.has_association() { ",assoc" } else if spec.has_polar() { ",polar" } else { "" }),
                (gp / gd - 1.0).abs(),
            );
            if debug() {
                eprintln!("DBG pdgt {} tau={tau} ratio={:.4} gp={gp:e} gd={gd:e} assoc={} polar={}", spec.label(), gp / gd, spec.has_association(), spec.has_polar());
            }
            obs.count();
            if !gp.is_finite() {
                // signature of PDGT_NAN: solve_pdgt returns Ok with a NaN surface tension
                obs.known_or_fail(PDGT_NAN, format!("solve_pdgt returns Ok with surface tension {gp} (DFT: {gd:e}) at T/Tc = {tau}"));
            } else {
                obs.ensure((gp / gd - 1.0).abs() < PDGT_TOL, || {
                    format!("pDGT surface tension {gp:e} vs DFT {gd:e} (ratio {:.4})", gp / gd)
                });
                obs.nontrivial();
            }
        }
    }
}

// ---------------------------------------------------------------------------------------
const PART_PORE: PartCfg = PartCfg { name: "pore", genome_len: 140, cases_quick: 128, cases_thorough: 12800, panic: PanicPolicy::Count };
const PART_HENRY: PartCfg = PartCfg { name: "henry", genome_len: 140, cases_quick: 96, cases_thorough: 9600, panic: PanicPolicy::Count };
const PART_PLANAR: PartCfg = PartCfg { name: "planar", genome_len: 120, cases_quick: 64, cases_thorough: 6400, panic: PanicPolicy::Count };
const PART_UNIFORM: PartCfg = PartCfg { name: "uniform-response", genome_len: 110, cases_quick: 480, cases_thorough: 80_000, panic: PanicPolicy::Count };

pub fn run(ctx: &Ctx) {
    ctx.set_rule("pore: proptest genomes -> (PeTS / PC-SAFT / gc-PC-SAFT (acyclic, <= 6 segments) / SAFT-VRQ Mie functional, 1-2 components) x (slit / cylinder / sphere; LJ93 / Steele / HardWall / SimpleLJ93 (slit); size 8-60 A; 256-1024 points) x T/Tc in [0.6,1.5] x bulk density = [0.05,0.6] x saturated vapour density (0.3 critical density above Tc) x relative step {5e-4,1e-3,2e-3}; the reference profile and 4 neighbours per direction (mu_k for every component, p, T) are solved with Newton to 1e-13 from the reference density. Non-trivial: at least 3 conclusive comparisons and an excess adsorption above 10 % of N. henry: (spherical or heterosegmented functional, 1-2 components) x pore x T/Tc in [0.6,1.5] at a bulk density chosen so that the Boltzmann-enhanced density stays below 1e-9..1e-7 x 1e-3/A^3. planar: pure functionals; two boxes (60-300 A, 256-4096 points) at T/Tc in [0.5,0.95]; gamma(T) on 6 temperatures + 0.97 Tc; pDGT (198 points) vs DFT. uniform-response: C16's generator (8 grid kinds incl. oblique periodic 2-D / 3-D cells, polar, cylindrical, spherical; 5 functional families, 1-3 components; bulk states of the whole (tau, eta) box incl. mechanically unstable ones; Lanczos None/1/2) with at most 1024 / 48 / 16 points per axis; non-trivial: the excess part of dmu/drho exceeds 1e-3 of the ideal-gas value. Distinct by hash of the canonical case JSON.");
    ctx.assume("finite differences: central differences with steps h and h/2, Richardson value, step-size error estimate |d(h/2)-d(h)|/3 must be below 0.2 x rtol x scale (else inconclusive); violation iff |analytic - numeric| > 2e-4 x scale + 10 x error estimate (measured <= 3.7e-6 on non-dilute profiles); neighbours are accepted only if the second difference of N is below 20 % of the first (no capillary condensation between them)");
    ctx.assume("chemical potential differences are taken from the bulk states: mu_i = T ln rho_i + mu_res,i (C01/C02 validate mu_res)");
    ctx.assume("Henry limit: rtol 1e-4 (DESIGN); ideal-gas enthalpy of adsorption: Ridders derivative of ln(H T), 1e-5 relative + 50 x Ridders error");
    ctx.assume("planar: surface tension independent of (L, n) within 1e-3 (measured 3e-7) asserted when the grid spacing is <= 0.5 sigma and the interface is at least 3 widths (90-10) from both walls; pDGT within 15 % of DFT (measured: <= 4.7 % PC-SAFT / SAFT-VRQ Mie, PeTS 3.6 % at 0.77 Tc rising smoothly to 9.8 % at 0.5 Tc)");
    ctx.run_sampled(&PART_PORE, &gen_pore_case, &check_pore);
    ctx.run_sampled(&PART_HENRY, &gen_henry_case, &check_henry);
    ctx.run_sampled(&PART_PLANAR, &gen_planar_case, &check_planar);
    ctx.assume("uniform-response: for a uniform profile without external potential (an exact solution, C16) the reported derivatives have closed forms in bulk properties of the same functional: dN_i/dmu_k = V [(V_b dmu/dN)^-1]_ik, dN_i/dp = V x_i/(dp/drho), dN_i/dT = -V x_i (dp/dT)/(dp/drho), henry_coefficients R T = V and ideal_gas_enthalpy_of_adsorption = R T (m = 1 segments), V = integral(1) with the grid's weights; tolerance 1e-7 x conditioning of dmu/drho (Frobenius) or T/|dp/drho|, cases beyond a conditioning of 1e4 / 1e3 skipped; an Err of the routine is inconclusive");
    ctx.run_sampled(&PART_UNIFORM, &super::c16::decode_response, &super::c16::check_response);
    ctx.extra("measured_worst", worst_json());
    ctx.extra("measured_worst_uniform_response", super::c16::response_worst());
}

pub fn replay(ctx: &Ctx, part: &str, case: &Value) -> bool {
    match part {
        "pore" => ctx.replay_case::<PoreCase>(case, &check_pore),
        "henry" => ctx.replay_case::<HenryCase>(case, &check_henry),
        "uniform-response" => ctx.replay_case::<super::c16::Case>(case, &super::c16::check_response),
        _ => ctx.replay_case::<PlanarCase>(case, &check_planar),
    }
}

#[allow(dead_code)]
fn _unused(_: GeomSpec, _: WallSpec) {}
