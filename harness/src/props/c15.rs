//! C15 — every shipped parameter record loads and yields a physically usable model.
//!
//! Finite domain, enumerated exhaustively (seed independent): one `File` case per JSON file
//! under parameters/{pcsaft,epcsaft,saftvrmie,saftvrqmie,ideal_gas}, one `Pure` case per pure
//! record, one `IdealGas` case per DIPPR record / Joback segment, one `Gc` case per
//! (gc substance, segment table).
use crate::engine::{Ctx, Obs, PanicPolicy};
use crate::model::{joback_model, params_dir};
use feos::core::parameter::{
    BinaryRecord, ChemicalRecord, Identifier, IdentifierOption, Parameter, ParameterHetero,
    PureRecord, SegmentRecord,
};
use feos::core::{
    Contributions, EquationOfState, PhaseEquilibrium, ReferenceSystem, Residual, SolverOptions,
    State,
};
use feos::epcsaft::{
    ElectrolytePcSaftBinaryRecord, ElectrolytePcSaftParameters, ElectrolytePcSaftRecord,
};
use feos::gc_pcsaft::{
    GcPcSaft, GcPcSaftEosParameters, GcPcSaftFunctional, GcPcSaftFunctionalParameters,
    GcPcSaftRecord,
};
use feos::ideal_gas::{Dippr, DipprRecord, Joback, JobackRecord};
use feos::pcsaft::{PcSaft, PcSaftBinaryRecord, PcSaftParameters, PcSaftRecord};
use feos::saftvrmie::{SaftVRMie, SaftVRMieParameters, SaftVRMieRecord};
use feos::saftvrqmie::{
    SaftVRQMie, SaftVRQMieBinaryRecord, SaftVRQMieParameters, SaftVRQMieRecord,
};
use feos::ResidualModel;
use ndarray::arr1;
use quantity::*;
use serde::de::DeserializeOwned;
use serde::{Deserialize, Serialize};
use serde_json::Value;
use std::collections::BTreeMap;
use std::sync::Arc;

pub const DIRS: [&str; 5] = ["pcsaft", "epcsaft", "saftvrmie", "saftvrqmie", "ideal_gas"];
/// emptied by the harness snapshot (properties.jsonl C15): excluded by name
pub const EXCLUDED: [&str; 1] = ["pcsaft/rehner2023_binary.json"];

#[derive(Clone, Copy, Debug, PartialEq, Eq)]
pub enum Kind {
    PurePcSaft,
    PureEpc,
    PureVrMie,
    PureVrq,
    PureDippr,
    BinPcSaft,
    BinEpc,
    BinVrq,
    SegHomo,
    SegHetero,
    SegJoback,
    SegBin,
    Chemical,
    Smarts,
}

/// file -> (record type, collection(s) a binary / smarts file accompanies); derived from the
/// README.md of each directory.
pub fn file_kind(rel: &str) -> Option<(Kind, Vec<&'static str>)> {
    use Kind::*;
    let t = |k: Kind| Some((k, vec![]));
    match rel {
        "pcsaft/eller2022.json"
        | "pcsaft/esper2023.json"
        | "pcsaft/gross2001.json"
        | "pcsaft/gross2002.json"
        | "pcsaft/gross2005_fit.json"
        | "pcsaft/gross2005_literature.json"
        | "pcsaft/gross2006.json"
        | "pcsaft/loetgeringlin2018.json"
        | "pcsaft/rehner2020.json" => t(PurePcSaft),
        "pcsaft/gross2002_binary.json" => {
            Some((BinPcSaft, vec!["pcsaft/gross2001.json", "pcsaft/gross2002.json"]))
        }
        "pcsaft/gc_substances.json" => t(Chemical),
        "pcsaft/sauer2014_homo.json"
        | "pcsaft/loetgeringlin2015_homo.json"
        | "pcsaft/rehner2023_homo.json" => t(SegHomo),
        "pcsaft/sauer2014_hetero.json" | "pcsaft/rehner2023_hetero.json" => t(SegHetero),
        "pcsaft/rehner2023_homo_binary.json" => Some((SegBin, vec!["pcsaft/rehner2023_homo.json"])),
        "pcsaft/rehner2023_hetero_binary.json" => {
            Some((SegBin, vec!["pcsaft/rehner2023_hetero.json"]))
        }
        "pcsaft/sauer2014_smarts.json" => Some((
            Smarts,
            vec![
                "pcsaft/sauer2014_homo.json",
                "pcsaft/sauer2014_hetero.json",
                "pcsaft/loetgeringlin2015_homo.json",
                "pcsaft/rehner2023_homo.json",
                "pcsaft/rehner2023_hetero.json",
                "ideal_gas/joback1987.json",
            ],
        )),
        "epcsaft/held2014_w_permittivity_added.json" => t(PureEpc),
        "epcsaft/held2014_binary.json" => {
            Some((BinEpc, vec!["epcsaft/held2014_w_permittivity_added.json"]))
        }
        "saftvrmie/lafitte2013.json" => t(PureVrMie),
        "saftvrqmie/aasen2019.json" | "saftvrqmie/aasen2019_fh2.json" | "saftvrqmie/hammer2023.json" => {
            t(PureVrq)
        }
        "saftvrqmie/aasen2020_binary.json" => Some((
            BinVrq,
            vec!["saftvrqmie/aasen2019.json", "saftvrqmie/hammer2023.json"],
        )),
        "saftvrqmie/aasen2020_binary_fh2.json" => Some((BinVrq, vec!["saftvrqmie/aasen2019_fh2.json"])),
        "ideal_gas/joback1987.json" => t(SegJoback),
        "ideal_gas/poling2000.json" => t(PureDippr),
        _ => None,
    }
}

pub const HOMO_TABLES: [(&str, Option<&str>); 4] = [
    ("pcsaft/sauer2014_homo.json", None),
    ("pcsaft/loetgeringlin2015_homo.json", None),
    ("pcsaft/rehner2023_homo.json", None),
    ("pcsaft/rehner2023_homo.json", Some("pcsaft/rehner2023_homo_binary.json")),
];
pub const HETERO_TABLES: [(&str, Option<&str>); 3] = [
    ("pcsaft/sauer2014_hetero.json", None),
    ("pcsaft/rehner2023_hetero.json", None),
    ("pcsaft/rehner2023_hetero.json", Some("pcsaft/rehner2023_hetero_binary.json")),
];
pub const JOBACK_TABLE: &str = "ideal_gas/joback1987.json";

#[derive(Serialize, Deserialize, Clone, Debug)]
pub enum Case {
    /// whole-file clauses: parses with its record type, no duplicate lookup identifiers,
    /// referential integrity of binary files, the whole collection loads through `from_json`
    File { rel: String },
    /// one pure record of a residual model
    Pure { rel: String, index: usize, name: String },
    /// one ideal-gas record (DIPPR record or Joback segment)
    IdealGas { rel: String, index: usize, name: String },
    /// one gc substance with one segment table. `route`: "homo", "hetero-eos", "hetero-dft", "joback"
    Gc { index: usize, name: String, route: String, table: String, binary: Option<String> },
}

fn read(rel: &str) -> Result<String, String> {
    std::fs::read_to_string(params_dir().join(rel)).map_err(|e| format!("cannot read {rel}: {e}"))
}

fn parse_vec<T: DeserializeOwned>(rel: &str) -> Result<Vec<T>, String> {
    serde_json::from_str::<Vec<T>>(&read(rel)?).map_err(|e| format!("{rel} does not parse with its record type: {e}"))
}

fn values(rel: &str) -> Result<Vec<Value>, String> {
    parse_vec::<Value>(rel)
}

const KINDS: [(&str, IdentifierOption); 6] = [
    ("cas", IdentifierOption::Cas),
    ("name", IdentifierOption::Name),
    ("iupac_name", IdentifierOption::IupacName),
    ("smiles", IdentifierOption::Smiles),
    ("inchi", IdentifierOption::Inchi),
    ("formula", IdentifierOption::Formula),
];

// ---------------------------------------------------------------------------------------
// Known-finding signatures (predicates in code). A violation that matches is routed through
// `known_or_fail`; everything else is a plain failure.
// ---------------------------------------------------------------------------------------
fn signature(rel: &str, clause: &str, key: &str) -> Option<&'static str> {
    let _ = (rel, clause, key);
    None
}

/// Documented, deliberate sharing of non-name identifiers (not a finding): the SAFT-VRQ Mie
/// README states that hydrogen / para-hydrogen / ortho-hydrogen (and deuterium for smiles)
/// must be distinguished by `name`.
fn documented_duplicate(rel: &str, kind: &str, key: &str) -> bool {
    rel.starts_with("saftvrqmie/")
        && kind != "name"
        && ["1333-74-0", "[HH]", "InChI=1S/H2/h1H", "H2"].contains(&key)
}

fn violation(obs: &mut Obs, rel: &str, clause: &str, key: &str, msg: String) {
    let msg = format!("{rel} [{key}] {clause}: {msg}");
    if std::env::var("C15_DEBUG").is_ok() {
        eprintln!("C15_DEBUG {msg}");
    }
    match signature(rel, clause, key) {
        Some(id) => obs.known_or_fail(id, msg),
        None => obs.fail(msg),
    }
}

// ---------------------------------------------------------------------------------------
// File-level clauses
// ---------------------------------------------------------------------------------------
fn ident_of(v: &Value, kind: &str) -> Option<String> {
    v.get(kind).and_then(|s| s.as_str()).map(|s| s.to_string())
}

fn check_duplicates(obs: &mut Obs, rel: &str, recs: &[Value]) {
    for (kind, _) in KINDS {
        let mut seen: BTreeMap<String, Vec<usize>> = BTreeMap::new();
        for (i, r) in recs.iter().enumerate() {
            if let Some(s) = ident_of(&r["identifier"], kind) {
                seen.entry(s).or_default().push(i);
            }
        }
        for (s, idx) in seen.iter().filter(|(_, idx)| idx.len() > 1) {
            obs.count();
            if kind == "formula" {
                // a sum formula does not identify a substance (isomers): reported, not asserted
                obs.class(format!("shared-formula:{rel}"));
                continue;
            }
            if documented_duplicate(rel, kind, s) {
                obs.class(format!("documented-shared-{kind}:{rel}"));
                continue;
            }
            if kind != "name" {
                // "the kind used for lookup" is the substance name in every shipped example, README
                // and default; other kinds shared between records that have distinct names (water
                // association schemes in rehner2020, E/Z isomers in esper2023) are reported as
                // observations, not asserted
                obs.class(format!("observed-shared-{kind}:{rel}"));
                note(format!("{rel}: {kind} '{s}' is shared by {} records (distinct names)", idx.len()));
                continue;
            }
            let names: Vec<String> = idx
                .iter()
                .map(|&i| ident_of(&recs[i]["identifier"], "name").unwrap_or_else(|| format!("#{i}")))
                .collect();
            violation(
                obs,
                rel,
                &format!("duplicate-{kind}"),
                s,
                format!("{kind} '{s}' is carried by {} records {:?}: a lookup by {kind} silently returns the first", idx.len(), names),
            );
        }
    }
}

/// the identifier object `id` of a binary record denotes a record of the collection: some
/// record agrees with it on every identifier kind both carry (at least one shared kind)
fn id_exists(id: &Value, collection: &[Value]) -> bool {
    collection.iter().any(|r| {
        let mut shared = 0;
        for (kind, _) in KINDS {
            if let (Some(a), Some(b)) = (ident_of(id, kind), ident_of(&r["identifier"], kind)) {
                if a != b {
                    return false;
                }
                shared += 1;
            }
        }
        shared > 0
    })
}

fn check_file(rel: &str, obs: &mut Obs) {
    obs.nontrivial();
    let Some((kind, accompanies)) = file_kind(rel) else {
        obs.fail(format!("{rel}: no record type known for this file (file table of the check is incomplete or a new file was shipped)"));
        return;
    };
    obs.class(format!("file:{kind:?}"));
    // (1) parses with its record type
    let typed: Result<usize, String> = match kind {
        Kind::PurePcSaft => parse_vec::<PureRecord<PcSaftRecord>>(rel).map(|v| v.len()),
        Kind::PureEpc => parse_vec::<PureRecord<ElectrolytePcSaftRecord>>(rel).map(|v| v.len()),
        Kind::PureVrMie => parse_vec::<PureRecord<SaftVRMieRecord>>(rel).map(|v| v.len()),
        Kind::PureVrq => parse_vec::<PureRecord<SaftVRQMieRecord>>(rel).map(|v| v.len()),
        Kind::PureDippr => parse_vec::<PureRecord<DipprRecord>>(rel).map(|v| v.len()),
        Kind::BinPcSaft => parse_vec::<BinaryRecord<Identifier, PcSaftBinaryRecord>>(rel).map(|v| v.len()),
        Kind::BinEpc => parse_vec::<BinaryRecord<Identifier, ElectrolytePcSaftBinaryRecord>>(rel).map(|v| v.len()),
        Kind::BinVrq => parse_vec::<BinaryRecord<Identifier, SaftVRQMieBinaryRecord>>(rel).map(|v| v.len()),
        Kind::SegHomo => parse_vec::<SegmentRecord<PcSaftRecord>>(rel).map(|v| v.len()),
        Kind::SegHetero => parse_vec::<SegmentRecord<GcPcSaftRecord>>(rel).map(|v| v.len()),
        Kind::SegJoback => parse_vec::<SegmentRecord<JobackRecord>>(rel).map(|v| v.len()),
        Kind::SegBin => parse_vec::<BinaryRecord<String, f64>>(rel).map(|v| v.len()),
        Kind::Chemical => parse_vec::<ChemicalRecord>(rel).map(|v| v.len()),
        Kind::Smarts => parse_vec::<SmartsRecord>(rel).map(|v| v.len()),
    };
    obs.count();
    let n = match typed {
        Ok(n) => n,
        Err(e) => {
            violation(obs, rel, "parse", "*", e);
            return;
        }
    };
    obs.ensure(n > 0, || format!("{rel}: file holds no records"));
    let recs = match values(rel) {
        Ok(v) => v,
        Err(e) => {
            obs.fail(e);
            return;
        }
    };
    // (1b) no field of a record is silently ignored by the record type (a renamed optional
    // field would otherwise parse and be dropped): every key of the file survives the typed
    // round trip or is a known key of the schema
    check_unknown_keys(obs, rel, kind, &recs);
    match kind {
        Kind::PurePcSaft | Kind::PureEpc | Kind::PureVrMie | Kind::PureVrq | Kind::PureDippr | Kind::Chemical => {
            // (2) no duplicate lookup identifiers
            check_duplicates(obs, rel, &recs);
            // every record can be looked up by name (the default identifier option)
            for (i, r) in recs.iter().enumerate() {
                obs.ensure(ident_of(&r["identifier"], "name").is_some(), || format!("{rel} record #{i} has no name"));
            }
        }
        Kind::SegHomo | Kind::SegHetero | Kind::SegJoback => {
            let mut seen = BTreeMap::new();
            for r in &recs {
                *seen.entry(r["identifier"].as_str().unwrap_or("").to_string()).or_insert(0) += 1;
            }
            for (s, c) in seen {
                obs.count();
                if c > 1 {
                    violation(obs, rel, "duplicate-segment", &s, format!("segment identifier appears {c} times"));
                }
            }
        }
        Kind::BinPcSaft | Kind::BinEpc | Kind::BinVrq => {
            // (3) every id exists in the collection the file accompanies; no pair twice
            let mut coll = vec![];
            for a in &accompanies {
                match values(a) {
                    Ok(v) => coll.extend(v),
                    Err(e) => obs.fail(e),
                }
            }
            let mut pairs: BTreeMap<(String, String), usize> = BTreeMap::new();
            for (i, b) in recs.iter().enumerate() {
                let mut names = vec![];
                for side in ["id1", "id2"] {
                    obs.count();
                    let nm = ident_of(&b[side], "name").unwrap_or_else(|| format!("#{i}.{side}"));
                    if !id_exists(&b[side], &coll) {
                        violation(obs, rel, "dangling-binary-id", &nm, format!("record #{i} {side} = {} matches no record of {:?}", b[side], accompanies));
                    }
                    names.push(nm);
                }
                names.sort();
                *pairs.entry((names[0].clone(), names[1].clone())).or_insert(0) += 1;
                obs.ensure(names[0] != names[1], || format!("{rel} record #{i}: binary record of a substance with itself"));
            }
            for ((a, b), c) in pairs {
                if c > 1 {
                    // the same pair stored more than once: an observation (the lookup takes one of
                    // them); reported in the evidence, not asserted by the property
                    obs.class(format!("observed-duplicate-pair:{rel}"));
                    note(format!("{rel}: pair {a}/{b} stored {c} times"));
                }
            }
        }
        Kind::SegBin | Kind::Smarts => {
            let mut ids: Vec<Vec<String>> = vec![];
            for a in &accompanies {
                match values(a) {
                    Ok(v) => ids.push(v.iter().map(|r| r["identifier"].as_str().unwrap_or("").to_string()).collect()),
                    Err(e) => obs.fail(e),
                }
            }
            let mut pairs: BTreeMap<(String, String), usize> = BTreeMap::new();
            for (i, b) in recs.iter().enumerate() {
                let keys: Vec<&str> = if kind == Kind::SegBin { vec!["id1", "id2"] } else { vec!["group"] };
                let mut names = vec![];
                for k in keys {
                    obs.count();
                    let s = b[k].as_str().unwrap_or("").to_string();
                    for (t, a) in ids.iter().zip(&accompanies) {
                        if !t.contains(&s) {
                            violation(obs, rel, "dangling-segment-id", &s, format!("record #{i} {k} = '{s}' is not a segment of {a}"));
                        }
                    }
                    names.push(s);
                }
                names.sort();
                let key = (names[0].clone(), names.get(1).cloned().unwrap_or_default());
                *pairs.entry(key).or_insert(0) += 1;
            }
            for ((a, b), c) in pairs {
                if c > 1 {
                    violation(obs, rel, "duplicate-pair", &format!("{a}/{b}"), format!("stored {c} times"));
                }
            }
        }
    }
    // (4) the whole collection loads through the public constructor (by name)
    let names: Vec<String> = recs
        .iter()
        .filter_map(|r| ident_of(&r["identifier"], "name"))
        .collect();
    let q: Vec<&str> = names.iter().map(|s| s.as_str()).collect();
    let p = params_dir().join(rel);
    let loaded: Option<Result<usize, String>> = match kind {
        Kind::PurePcSaft => {
            let b = (rel == "pcsaft/gross2002.json").then(|| params_dir().join("pcsaft/gross2002_binary.json"));
            Some(PcSaftParameters::from_json(q.clone(), p.clone(), b, IdentifierOption::Name).map(|p| p.m.len()).map_err(|e| e.to_string()))
        }
        Kind::PureEpc => Some(
            ElectrolytePcSaftParameters::from_json(q.clone(), p.clone(), Some(params_dir().join("epcsaft/held2014_binary.json")), IdentifierOption::Name)
                .map(|p| p.m.len())
                .map_err(|e| e.to_string()),
        ),
        Kind::PureVrMie => Some(SaftVRMieParameters::from_json(q.clone(), p.clone(), None, IdentifierOption::Name).map(|p| p.m.len()).map_err(|e| e.to_string())),
        Kind::PureVrq => {
            let b = if rel.ends_with("_fh2.json") { "saftvrqmie/aasen2020_binary_fh2.json" } else { "saftvrqmie/aasen2020_binary.json" };
            Some(SaftVRQMieParameters::from_json(q.clone(), p.clone(), Some(params_dir().join(b)), IdentifierOption::Name).map(|p| p.m.len()).map_err(|e| e.to_string()))
        }
        Kind::PureDippr => Some(Dippr::from_json(q.clone(), p.clone(), None, IdentifierOption::Name).map(|p| p.records().0.len()).map_err(|e| e.to_string())),
        _ => None,
    };
    if let Some(l) = loaded {
        obs.count();
        match l {
            Ok(k) => {
                obs.ensure(k == n, || format!("{rel}: from_json of all {n} names built {k} components"));
            }
            Err(e) => violation(obs, rel, "from_json-all", "*", e),
        }
    }
}

#[derive(Serialize, Deserialize)]
#[serde(deny_unknown_fields)]
struct SmartsRecord {
    group: String,
    smarts: String,
    #[serde(default)]
    max: Option<usize>,
}

/// keys the record types understand (serde ignores unknown keys silently, so a renamed
/// optional field would parse and be dropped)
fn known_keys(kind: Kind) -> (&'static [&'static str], &'static [&'static str]) {
    const TOP_PURE: &[&str] = &["identifier", "molarweight", "model_record"];
    const TOP_BIN: &[&str] = &["id1", "id2", "model_record"];
    const ASSOC: [&str; 5] = ["kappa_ab", "epsilon_k_ab", "na", "nb", "nc"];
    let _ = ASSOC;
    match kind {
        Kind::PurePcSaft | Kind::SegHomo => (
            TOP_PURE,
            &["m", "sigma", "epsilon_k", "mu", "q", "kappa_ab", "epsilon_k_ab", "na", "nb", "nc", "viscosity", "diffusion", "thermal_conductivity"],
        ),
        Kind::PureEpc => (
            TOP_PURE,
            &["m", "sigma", "epsilon_k", "kappa_ab", "epsilon_k_ab", "na", "nb", "nc", "z", "permittivity_record"],
        ),
        Kind::PureVrMie => (
            TOP_PURE,
            &["m", "sigma", "epsilon_k", "lr", "la", "rc_ab", "epsilon_k_ab", "na", "nb", "nc", "viscosity", "diffusion", "thermal_conductivity"],
        ),
        Kind::PureVrq => (
            TOP_PURE,
            &["m", "sigma", "epsilon_k", "lr", "la", "fh", "viscosity", "diffusion", "thermal_conductivity"],
        ),
        Kind::PureDippr => (TOP_PURE, &["DIPPR100", "DIPPR107", "DIPPR127"]),
        Kind::SegHetero => (
            TOP_PURE,
            &["m", "sigma", "epsilon_k", "mu", "kappa_ab", "epsilon_k_ab", "na", "nb", "nc", "psi_dft"],
        ),
        Kind::SegJoback => (TOP_PURE, &["a", "b", "c", "d", "e"]),
        Kind::BinPcSaft => (TOP_BIN, &["k_ij", "kappa_ab", "epsilon_k_ab", "site_indices"]),
        Kind::BinEpc => (TOP_BIN, &["k_ij", "kappa_ab", "epsilon_k_ab", "site_indices"]),
        Kind::BinVrq => (TOP_BIN, &["k_ij", "l_ij"]),
        Kind::SegBin => (TOP_BIN, &[]),
        Kind::Chemical => (&["identifier", "segments", "bonds"], &[]),
        Kind::Smarts => (&["group", "smarts", "max"], &[]),
    }
}

fn check_unknown_keys(obs: &mut Obs, rel: &str, kind: Kind, recs: &[Value]) {
    let (top, model) = known_keys(kind);
    const IDK: [&str; 6] = ["cas", "name", "iupac_name", "smiles", "inchi", "formula"];
    for (i, r) in recs.iter().enumerate() {
        obs.count();
        let label = || -> String {
            r["identifier"]["name"]
                .as_str()
                .or(r["identifier"].as_str())
                .or(r["id1"]["name"].as_str())
                .or(r["group"].as_str())
                .map(|s| s.to_string())
                .unwrap_or_else(|| format!("#{i}"))
        };
        let Some(o) = r.as_object() else {
            violation(obs, rel, "schema", &label(), "record is not an object".into());
            continue;
        };
        for k in o.keys() {
            if !top.contains(&k.as_str()) {
                violation(obs, rel, "unknown-field", &label(), format!("field '{k}' is not part of the record type and is silently ignored"));
            }
        }
        if let Some(m) = r.get("model_record").and_then(|m| m.as_object()) {
            for k in m.keys() {
                if !model.contains(&k.as_str()) {
                    violation(obs, rel, "unknown-field", &label(), format!("model_record field '{k}' is not part of the record type and is silently ignored"));
                }
            }
        }
        for side in ["identifier", "id1", "id2"] {
            if let Some(m) = r.get(side).and_then(|m| m.as_object()) {
                for k in m.keys() {
                    if !IDK.contains(&k.as_str()) {
                        violation(obs, rel, "unknown-field", &label(), format!("{side} field '{k}' is not an identifier kind and is silently ignored"));
                    }
                }
            }
        }
    }
}

// ---------------------------------------------------------------------------------------
// Pure records
// ---------------------------------------------------------------------------------------
fn pos(obs: &mut Obs, rel: &str, name: &str, what: &str, x: Option<f64>) {
    obs.count();
    match x {
        Some(v) if v.is_finite() && v > 0.0 => {}
        other => violation(obs, rel, "non-positive", name, format!("{what} = {other:?} is not a positive finite number")),
    }
}

/// reduced temperatures of the saturation curve (C04's lattice)
pub const TAUS: [f64; 8] = [0.45, 0.55, 0.65, 0.75, 0.85, 0.92, 0.96, 0.99];

/// thresholds of C06 for a pure critical point (dimensionless)
const CP_DPDV: f64 = 1e-6;
const CP_D2PDV2: f64 = 1e-4;

/// solver observations that belong to C04 / C06 (the record is usable, a default solver call is not)
static SOLVER_NOTES: std::sync::Mutex<Vec<String>> = std::sync::Mutex::new(Vec::new());
fn note(s: String) {
    let mut g = SOLVER_NOTES.lock().unwrap();
    if !g.contains(&s) {
        g.push(s);
    }
}

fn check_curve(obs: &mut Obs, rel: &str, name: &str, model: ResidualModel, tau_min: f64, success_demanded: bool, t_est: f64) {
    let residual = Arc::new(model);
    // total caloric properties need an ideal-gas part: a constant c_p^ig = 4R stand-in (Joback a = 4R)
    let ig = joback_model(&[[33.258, 0.0, 0.0, 0.0, 0.0]]).expect("joback");
    let eos = Arc::new(EquationOfState::new(Arc::new(ig), residual));
    // The property demands that the model *has* a critical point. The default call (trial
    // temperatures 300/700/500 K) is tried first; if it fails or lands on an unphysical root
    // (p <= 0), a ladder of initial temperatures around 1.3 eps/k (1 + 0.1 (m - 1)) is tried.
    // A default call that does not deliver the physical point is a C06 matter: noted, not asserted here.
    let physical = |cp: &State<_>| {
        let tc = cp.temperature.convert_to(KELVIN);
        let pc = cp.pressure(Contributions::Total).convert_to(PASCAL);
        let rhoc = cp.density.to_reduced();
        tc.is_finite() && tc > 0.0 && pc.is_finite() && pc > 0.0 && rhoc.is_finite() && rhoc > 0.0
    };
    let mut found = None;
    let mut first_msg = String::new();
    let ladder = [f64::NAN, 1.0, 1.25, 0.8, 1.6, 0.6, 2.0, 2.5, 3.0, 0.45];
    for (k, f) in ladder.iter().enumerate() {
        let t0 = if k == 0 { None } else { Some(f * t_est * KELVIN) };
        match State::critical_point(&eos, None, t0, SolverOptions::default()) {
            Ok(cp) if physical(&cp) => {
                if k > 0 {
                    obs.class("critical-point:default-initialisation-unusable");
                    note(format!("C06: {rel} [{name}] State::critical_point with default initial temperature: {first_msg}; physical point found from T0 = {:.1} K at T_c = {:.2} K", f * t_est, cp.temperature.convert_to(KELVIN)));
                }
                found = Some(cp);
                break;
            }
            Ok(cp) => {
                if k == 0 {
                    first_msg = format!("unphysical root T = {:.2} K, p = {:.4e} Pa", cp.temperature.convert_to(KELVIN), cp.pressure(Contributions::Total).convert_to(PASCAL));
                }
            }
            Err(e) => {
                if k == 0 {
                    first_msg = format!("Err({e})");
                }
            }
        }
    }
    let Some(cp) = found else {
        if success_demanded {
            violation(obs, rel, "no-critical-point", name, format!("no physical critical point found (default call: {first_msg}; 9 further initial temperatures around {t_est:.0} K)"));
        } else {
            obs.class("outside-success-domain:critical-point-failed");
        }
        return;
    };
    let tc = cp.temperature.convert_to(KELVIN);
    // C06's conditions, recomputed on a fresh state
    match State::new_nvt(&eos, cp.temperature, cp.volume, &cp.moles) {
        Ok(s) => {
            let t = s.temperature.to_reduced();
            let v = s.volume.to_reduced();
            let n = s.total_moles.to_reduced();
            let a = (v * v * s.dp_dv(Contributions::Total).to_reduced() / (n * t)).abs();
            let b = (v * v * v * s.d2p_dv2(Contributions::Total).to_reduced() / (n * t)).abs();
            track(&WORST_CP1, a);
            track(&WORST_CP2, b);
            obs.count();
            if !(a <= CP_DPDV && b <= CP_D2PDV2) {
                violation(obs, rel, "critical-conditions", name, format!("|V^2 dp_dv/NkT| = {a:e} (<= {CP_DPDV:e}), |V^3 d2p_dv2/NkT| = {b:e} (<= {CP_D2PDV2:e}) at T_c = {tc}"));
            }
        }
        Err(e) => violation(obs, rel, "critical-point", name, format!("state at the critical point cannot be rebuilt: {e}")),
    }
    obs.class(if tc < 50.0 {
        "Tc<50K"
    } else if tc < 300.0 {
        "Tc 50-300K"
    } else if tc < 700.0 {
        "Tc 300-700K"
    } else {
        "Tc>700K"
    });
    let mut p_prev = 0.0;
    let mut prev: Option<PhaseEquilibrium<_, 2>> = None;
    for tau in TAUS.iter().copied().filter(|&t| t >= tau_min) {
        let t = tau * tc * KELVIN;
        obs.count();
        let vle = match PhaseEquilibrium::pure(&eos, t, None, SolverOptions::default()) {
            Ok(v) => v,
            Err(e) => {
                // does the curve exist there? continue from the previous grid point in 1 % steps
                let mut cont = None;
                if let Some(prev) = prev.as_ref() {
                    let mut cur: PhaseEquilibrium<_, 2> = Clone::clone(prev);
                    let t_from = cur.vapor().temperature.convert_to(KELVIN);
                    let steps = (((tau * tc - t_from) / (0.01 * tc)).ceil() as usize).max(1);
                    let mut ok = true;
                    for k in 1..=steps {
                        let tk = (t_from + (tau * tc - t_from) * k as f64 / steps as f64) * KELVIN;
                        match PhaseEquilibrium::pure(&eos, tk, Some(&cur), SolverOptions::default()) {
                            Ok(v) => cur = v,
                            Err(_) => {
                                ok = false;
                                break;
                            }
                        }
                    }
                    if ok {
                        cont = Some(cur);
                    }
                }
                match cont {
                    Some(v) => {
                        obs.class("saturation:standalone-solve-failed,continuation-ok");
                        note(format!("C04: {rel} [{name}] PhaseEquilibrium::pure(T = {tau} T_c = {:.3} K, no initial state) fails: {e}; the point exists (continuation from the previous grid temperature converges)", tau * tc));
                        v
                    }
                    None => {
                        if success_demanded {
                            violation(obs, rel, "no-saturation-point", name, format!("PhaseEquilibrium::pure failed at T = {tau} T_c = {} K (also by continuation): {e}", tau * tc));
                        } else {
                            obs.class("outside-success-domain:vle-failed");
                        }
                        continue;
                    }
                }
            }
        };
        let (vap, liq) = (vle.vapor(), vle.liquid());
        let p = vap.pressure(Contributions::Total).convert_to(PASCAL);
        let (rv, rl) = (vap.density.to_reduced(), liq.density.to_reduced());
        let mut bad = vec![];
        if !(p.is_finite() && p > 0.0) {
            bad.push(format!("p = {p}"));
        }
        if !(rv.is_finite() && rl.is_finite() && rv > 0.0 && rv < rl) {
            bad.push(format!("rho_v = {rv}, rho_l = {rl}"));
        }
        if !(p > p_prev) {
            bad.push(format!("p_sat not increasing with T: {p} after {p_prev}"));
        }
        p_prev = p;
        for (ph, s) in [("vapour", vap), ("liquid", liq)] {
            let h = s.molar_enthalpy(Contributions::Total).to_reduced();
            let en = s.molar_entropy(Contributions::Total).to_reduced();
            let cp_ = s.molar_isobaric_heat_capacity(Contributions::Total).to_reduced();
            let w = s.speed_of_sound().to_reduced();
            for (q, x) in [("h", h), ("s", en), ("c_p", cp_), ("speed of sound", w)] {
                if !x.is_finite() {
                    bad.push(format!("{ph} {q} = {x}"));
                }
            }
            if !(cp_ > 0.0) || !(w > 0.0) {
                bad.push(format!("{ph} c_p = {cp_}, w = {w} not positive"));
            }
        }
        prev = Some(vle.clone());
        if !bad.is_empty() {
            violation(obs, rel, "saturation-properties", name, format!("at T = {tau} T_c = {} K: {}", tau * tc, bad.join("; ")));
        }
    }
}

static WORST_CP1: std::sync::Mutex<f64> = std::sync::Mutex::new(0.0);
static WORST_CP2: std::sync::Mutex<f64> = std::sync::Mutex::new(0.0);
fn track(m: &std::sync::Mutex<f64>, v: f64) {
    let mut g = m.lock().unwrap();
    if v.is_finite() && v > *g {
        *g = v;
    }
}

fn check_pure(rel: &str, index: usize, name: &str, obs: &mut Obs) {
    obs.nontrivial();
    obs.class(format!("pure:{rel}"));
    let Some((kind, _)) = file_kind(rel) else {
        obs.fail(format!("{rel}: unknown file"));
        return;
    };
    let recs = match values(rel) {
        Ok(v) => v,
        Err(e) => {
            obs.discard(format!("file does not parse (reported by the File case): {}", e.chars().take(60).collect::<String>()));
            return;
        }
    };
    let Some(r) = recs.get(index) else {
        obs.fail(format!("{rel}: no record #{index}"));
        return;
    };
    let mr = &r["model_record"];
    let f = |k: &str| mr.get(k).and_then(|x| x.as_f64());
    pos(obs, rel, name, "molarweight", r.get("molarweight").and_then(|x| x.as_f64()));
    for k in ["m", "sigma", "epsilon_k"] {
        pos(obs, rel, name, k, f(k));
    }
    if matches!(kind, Kind::PureVrMie | Kind::PureVrq) {
        pos(obs, rel, name, "la", f("la"));
        obs.count();
        if !(f("lr").unwrap_or(f64::NAN) > f("la").unwrap_or(f64::NAN)) {
            violation(obs, rel, "exponents", name, format!("lr = {:?} must exceed la = {:?}", f("lr"), f("la")));
        }
    }
    // association sites without own kappa_ab / epsilon_k_ab are legitimate (induced association:
    // the cross parameters come from the partner), so only the class is recorded
    let sites = f("na").unwrap_or(0.0) + f("nb").unwrap_or(0.0) + f("nc").unwrap_or(0.0);
    if sites > 0.0 {
        obs.class(if f("epsilon_k_ab").is_some() { "associating" } else { "induced-association-sites" });
    }
    if f("mu").unwrap_or(0.0) != 0.0 || f("q").unwrap_or(0.0) != 0.0 {
        obs.class("polar");
    }
    // every number of the record is finite
    fn finite(v: &Value) -> bool {
        match v {
            Value::Number(n) => n.as_f64().map(|x| x.is_finite()).unwrap_or(false),
            Value::Array(a) => a.iter().all(finite),
            Value::Object(o) => o.values().all(finite),
            _ => true,
        }
    }
    obs.ensure(finite(mr), || format!("{rel} [{name}]: non-finite number in model_record"));

    let t_est = 1.3 * f("epsilon_k").unwrap_or(250.0) * (1.0 + 0.1 * (f("m").unwrap_or(1.0) - 1.0));
    macro_rules! typed {
        ($t:ty) => {
            match serde_json::from_value::<PureRecord<$t>>(r.clone()) {
                Ok(x) => x,
                Err(e) => {
                    violation(obs, rel, "parse", name, format!("record does not parse: {e}"));
                    return;
                }
            }
        };
    }
    match kind {
        Kind::PurePcSaft => {
            let rec = typed!(PcSaftRecord);
            match PcSaftParameters::new_pure(rec) {
                Ok(p) => check_curve(obs, rel, name, ResidualModel::PcSaft(PcSaft::new(Arc::new(p))), 0.0, true, t_est),
                Err(e) => violation(obs, rel, "new_pure", name, e.to_string()),
            }
        }
        Kind::PureVrMie => {
            let rec = typed!(SaftVRMieRecord);
            match SaftVRMieParameters::new_pure(rec) {
                Ok(p) => check_curve(obs, rel, name, ResidualModel::SaftVRMie(SaftVRMie::new(Arc::new(p))), 0.0, true, t_est),
                Err(e) => violation(obs, rel, "new_pure", name, e.to_string()),
            }
        }
        Kind::PureVrq => {
            let rec = typed!(SaftVRQMieRecord);
            let fh = rec.model_record.fh;
            obs.class(format!("fh={fh}"));
            // C04's stated domain: T >= 0.6 T_c, helium with the second-order correction excepted
            let demanded = !(name == "helium" && fh == 2);
            match SaftVRQMieParameters::new_pure(rec) {
                Ok(p) => check_curve(obs, rel, name, ResidualModel::SaftVRQMie(SaftVRQMie::new(Arc::new(p))), 0.6, demanded, t_est),
                Err(e) => violation(obs, rel, "new_pure", name, e.to_string()),
            }
        }
        Kind::PureEpc => {
            let rec = typed!(ElectrolytePcSaftRecord);
            let z = rec.model_record.z.unwrap_or(0.0);
            obs.class(if z == 0.0 { "solvent" } else { "ion" });
            if z != 0.0 {
                obs.ensure(z.is_finite() && z.fract() == 0.0, || format!("{rel} [{name}]: charge z = {z} is not an integer"));
                obs.ensure(rec.model_record.permittivity_record.is_some(), || format!("{rel} [{name}]: ion without permittivity record"));
            }
            obs.count();
            if let Err(e) = ElectrolytePcSaftParameters::new_pure(rec) {
                violation(obs, rel, "new_pure", name, e.to_string());
            }
        }
        _ => obs.fail(format!("{rel}: not a pure residual-model file")),
    }
}

// ---------------------------------------------------------------------------------------
// Ideal gas records
// ---------------------------------------------------------------------------------------
pub fn cp_grid() -> Vec<f64> {
    (0..=32).map(|i| 200.0 + 25.0 * i as f64).collect()
}

fn check_ideal_gas(rel: &str, index: usize, name: &str, obs: &mut Obs) {
    obs.nontrivial();
    obs.class(format!("ideal-gas:{rel}"));
    let recs = match values(rel) {
        Ok(v) => v,
        Err(e) => {
            obs.discard(format!("file does not parse (reported by the File case): {}", e.chars().take(60).collect::<String>()));
            return;
        }
    };
    let Some(r) = recs.get(index) else {
        obs.fail(format!("{rel}: no record #{index}"));
        return;
    };
    match file_kind(rel).map(|k| k.0) {
        Some(Kind::PureDippr) => {
            let rec: PureRecord<DipprRecord> = match serde_json::from_value(r.clone()) {
                Ok(x) => x,
                Err(e) => {
                    violation(obs, rel, "parse", name, format!("record does not parse: {e}"));
                    return;
                }
            };
            obs.class(match &rec.model_record {
                DipprRecord::DIPPR100(_) => "DIPPR100",
                DipprRecord::DIPPR107(_) => "DIPPR107",
                DipprRecord::DIPPR127(_) => "DIPPR127",
            });
            let d = match Dippr::new_pure(rec) {
                Ok(d) => d,
                Err(e) => {
                    violation(obs, rel, "new_pure", name, e.to_string());
                    return;
                }
            };
            let mut bad = vec![];
            for t in cp_grid() {
                obs.count();
                match d.molar_isobaric_heat_capacity(t * KELVIN, &arr1(&[1.0])) {
                    Ok(c) => {
                        let c = c.convert_to(JOULE / (MOL * KELVIN));
                        if !(c.is_finite() && c > 0.0) {
                            bad.push(format!("c_p({t} K) = {c} J/mol/K"));
                        }
                    }
                    Err(e) => bad.push(format!("c_p({t} K): {e}")),
                }
            }
            if !bad.is_empty() {
                violation(obs, rel, "ideal-gas-cp", name, format!("{} of {} grid temperatures in [200, 1000] K: {}", bad.len(), cp_grid().len(), bad.iter().take(3).cloned().collect::<Vec<_>>().join("; ")));
            }
        }
        Some(Kind::SegJoback) => {
            // a group is not a molecule: its c_p contribution has no sign; the record must
            // parse, have a positive molar weight and finite coefficients. Positivity of c_p is
            // checked on the assembled gc substances (Gc cases, route "joback").
            let rec: SegmentRecord<JobackRecord> = match serde_json::from_value(r.clone()) {
                Ok(x) => x,
                Err(e) => {
                    violation(obs, rel, "parse", name, format!("record does not parse: {e}"));
                    return;
                }
            };
            pos(obs, rel, name, "molarweight", Some(rec.molarweight));
            let m = &rec.model_record;
            obs.ensure([m.a, m.b, m.c, m.d, m.e].iter().all(|x| x.is_finite()), || format!("{rel} [{name}]: non-finite coefficient"));
        }
        _ => obs.fail(format!("{rel}: not an ideal-gas file")),
    }
}

// ---------------------------------------------------------------------------------------
// Group contribution: every substance x every table
// ---------------------------------------------------------------------------------------
fn finite_pressures<E: Residual>(obs: &mut Obs, what: &str, name: &str, eos: E) {
    let eos = Arc::new(eos);
    let moles = arr1(&[1.0]) * MOL;
    let rho_max = match eos.max_density(Some(&moles)) {
        Ok(r) => r,
        Err(e) => {
            obs.fail(format!("{what} [{name}]: max_density: {e}"));
            return;
        }
    };
    for (label, f) in [("liquid-like", 0.7), ("vapour-like", 1e-3)] {
        obs.count();
        let rho = f * rho_max;
        match State::new_nvt(&eos, 350.0 * KELVIN, moles.sum() / rho, &moles) {
            Ok(s) => {
                let p = s.pressure(Contributions::Total).convert_to(PASCAL);
                let a = s.residual_molar_helmholtz_energy().to_reduced();
                if !(p.is_finite() && a.is_finite()) {
                    obs.fail(format!("{what} [{name}]: {label} state at 350 K: p = {p} Pa, a_res = {a}"));
                }
                if label == "vapour-like" && !(p > 0.0) {
                    obs.fail(format!("{what} [{name}]: vapour-like pressure {p} Pa not positive"));
                }
            }
            Err(e) => obs.fail(format!("{what} [{name}]: state: {e}")),
        }
    }
}

fn check_gc(index: usize, name: &str, route: &str, table: &str, binary: &Option<String>, obs: &mut Obs) {
    obs.nontrivial();
    obs.class(format!("gc:{route}:{table}{}", if binary.is_some() { "+binary" } else { "" }));
    let subs = match parse_vec::<ChemicalRecord>("pcsaft/gc_substances.json") {
        Ok(v) => v,
        Err(e) => {
            obs.discard(format!("gc_substances.json does not parse (reported by the File case): {}", e.chars().take(40).collect::<String>()));
            return;
        }
    };
    let Some(cr) = subs.get(index).cloned() else {
        obs.fail(format!("gc_substances.json: no record #{index}"));
        return;
    };
    obs.class(format!("segments={}", cr.segments.len().min(9)));
    let bin: Option<Vec<BinaryRecord<String, f64>>> = match binary {
        Some(b) => match parse_vec(b) {
            Ok(v) => Some(v),
            Err(e) => {
                obs.discard(format!("binary table does not parse: {}", e.chars().take(40).collect::<String>()));
                return;
            }
        },
        None => None,
    };
    let what = format!("{table} x gc_substances.json");
    macro_rules! segs {
        ($t:ty) => {
            match parse_vec::<SegmentRecord<$t>>(table) {
                Ok(v) => v,
                Err(e) => {
                    obs.discard(format!("segment table does not parse (reported by the File case): {}", e.chars().take(40).collect::<String>()));
                    return;
                }
            }
        };
    }
    obs.count();
    match route {
        "homo" => match PcSaftParameters::from_segments(vec![cr], segs!(PcSaftRecord), bin) {
            Ok(p) => {
                let (pr, _) = p.records();
                let mr = &pr[0];
                pos(obs, &what, name, "molarweight", Some(mr.molarweight));
                pos(obs, &what, name, "m", Some(mr.model_record.m));
                pos(obs, &what, name, "sigma", Some(mr.model_record.sigma));
                pos(obs, &what, name, "epsilon_k", Some(mr.model_record.epsilon_k));
                finite_pressures(obs, &what, name, PcSaft::new(Arc::new(p)));
            }
            Err(e) => violation(obs, table, "gc-assembly", name, format!("PcSaftParameters::from_segments: {e}")),
        },
        "hetero-eos" => match GcPcSaftEosParameters::from_segments(vec![cr], segs!(GcPcSaftRecord), bin) {
            Ok(p) => {
                pos(obs, &what, name, "molarweight", Some(p.molarweight[0]));
                finite_pressures(obs, &what, name, GcPcSaft::new(Arc::new(p)));
            }
            Err(e) => violation(obs, table, "gc-assembly", name, format!("GcPcSaftEosParameters::from_segments: {e}")),
        },
        "hetero-dft" => match GcPcSaftFunctionalParameters::from_segments(vec![cr], segs!(GcPcSaftRecord), bin) {
            Ok(p) => {
                pos(obs, &what, name, "molarweight", Some(p.molarweight[0]));
                finite_pressures(obs, &what, name, GcPcSaftFunctional::new(Arc::new(p)));
            }
            Err(e) => violation(obs, table, "gc-assembly", name, format!("GcPcSaftFunctionalParameters::from_segments: {e}")),
        },
        "joback" => match Joback::from_segments(vec![cr], segs!(JobackRecord), None) {
            Ok(j) => {
                let mut bad = vec![];
                for t in cp_grid() {
                    obs.count();
                    match j.molar_isobaric_heat_capacity(t * KELVIN, &arr1(&[1.0])) {
                        Ok(c) => {
                            let c = c.convert_to(JOULE / (MOL * KELVIN));
                            if !(c.is_finite() && c > 0.0) {
                                bad.push(format!("c_p({t} K) = {c} J/mol/K"));
                            }
                        }
                        Err(e) => bad.push(format!("c_p({t} K): {e}")),
                    }
                }
                if !bad.is_empty() {
                    violation(obs, table, "ideal-gas-cp", name, format!("{} grid temperatures: {}", bad.len(), bad.iter().take(3).cloned().collect::<Vec<_>>().join("; ")));
                }
            }
            Err(e) => violation(obs, table, "gc-assembly", name, format!("Joback::from_segments: {e}")),
        },
        other => obs.fail(format!("unknown route {other}")),
    }
}

pub fn check(case: &Case, obs: &mut Obs) {
    match case {
        Case::File { rel } => check_file(rel, obs),
        Case::Pure { rel, index, name } => check_pure(rel, *index, name, obs),
        Case::IdealGas { rel, index, name } => check_ideal_gas(rel, *index, name, obs),
        Case::Gc { index, name, route, table, binary } => check_gc(*index, name, route, table, binary, obs),
    }
}

fn label_of(r: &Value, i: usize) -> String {
    r["identifier"]["name"]
        .as_str()
        .or(r["identifier"].as_str())
        .map(|s| s.to_string())
        .unwrap_or_else(|| format!("#{i}"))
}

/// Enumerate the finite domain from the directory listing (not from a hard-coded list, so a
/// new or renamed file shows up as a `File` case without a record type).
pub fn enumerate() -> (Vec<Case>, Value) {
    let mut cases = vec![];
    let mut counts: BTreeMap<String, usize> = BTreeMap::new();
    for d in DIRS {
        let mut files: Vec<String> = std::fs::read_dir(params_dir().join(d))
            .map(|rd| {
                rd.flatten()
                    .map(|e| e.file_name().to_string_lossy().to_string())
                    .filter(|n| n.ends_with(".json"))
                    .collect()
            })
            .unwrap_or_default();
        files.sort();
        for f in files {
            let rel = format!("{d}/{f}");
            if EXCLUDED.contains(&rel.as_str()) {
                continue;
            }
            cases.push(Case::File { rel: rel.clone() });
            let n = values(&rel).map(|v| v.len()).unwrap_or(0);
            counts.insert(rel.clone(), n);
            let recs = values(&rel).unwrap_or_default();
            match file_kind(&rel).map(|k| k.0) {
                Some(Kind::PurePcSaft | Kind::PureEpc | Kind::PureVrMie | Kind::PureVrq) => {
                    for (i, r) in recs.iter().enumerate() {
                        cases.push(Case::Pure { rel: rel.clone(), index: i, name: label_of(r, i) });
                    }
                }
                Some(Kind::PureDippr | Kind::SegJoback) => {
                    for (i, r) in recs.iter().enumerate() {
                        cases.push(Case::IdealGas { rel: rel.clone(), index: i, name: label_of(r, i) });
                    }
                }
                Some(Kind::Chemical) => {
                    for (i, r) in recs.iter().enumerate() {
                        let name = label_of(r, i);
                        for (t, b) in HOMO_TABLES {
                            cases.push(Case::Gc { index: i, name: name.clone(), route: "homo".into(), table: t.into(), binary: b.map(|s| s.to_string()) });
                        }
                        for route in ["hetero-eos", "hetero-dft"] {
                            for (t, b) in HETERO_TABLES {
                                cases.push(Case::Gc { index: i, name: name.clone(), route: route.into(), table: t.into(), binary: b.map(|s| s.to_string()) });
                            }
                        }
                        cases.push(Case::Gc { index: i, name: name.clone(), route: "joback".into(), table: JOBACK_TABLE.into(), binary: None });
                    }
                }
                _ => {}
            }
        }
    }
    (cases, serde_json::to_value(counts).unwrap())
}

pub fn run(ctx: &Ctx) {
    ctx.set_rule("exhaustive, seed-independent enumeration of the finite domain from the directory listing of parameters/{pcsaft,epcsaft,saftvrmie,saftvrqmie,ideal_gas}/*.json (rehner2023_binary.json, emptied by the snapshot, excluded by name): one File case per file (typed parse, silently ignored fields, duplicate lookup identifiers, referential integrity of binary/segment-binary/smarts files, whole collection through from_json by name), one Pure case per residual-model record (positivity; PC-SAFT / SAFT-VR Mie / SAFT-VRQ Mie: critical point + 8-point saturation curve with finite p, rho, h, s, c_p, speed of sound), one IdealGas case per DIPPR record / Joback segment (c_p on a 25 K grid over [200, 1000] K), one Gc case per (gc substance) x (4 homo tables, 3 hetero tables x {EoS, DFT}, Joback table). Every case is non-trivial and counts once (distinct by file + record).");
    ctx.assume("file -> record type table is derived from the README.md files of the five directories; sauer2014_smarts.json has no Rust record type (Python/rdkit only) and is parsed with a harness struct {group, smarts, max?}; its groups must exist in every segment table");
    ctx.assume("duplicate identifiers: cas, name, iupac_name, smiles and inchi must be unique inside a file (each is a selectable IdentifierOption and PureRecord::from_json silently returns the first match); a sum formula does not identify a substance (isomers) and is only reported; the SAFT-VRQ Mie README documents that the hydrogen spin isomers share every identifier but `name` (class documented-shared-*)");
    ctx.assume("positivity of molar weight is asserted for residual-model records and segment records; poling2000.json ships no molarweight (PureRecord::molarweight is #[serde(default)] and the DIPPR model never reads it)");
    ctx.assume("saturation curve: C04's lattice tau in {0.45,0.55,0.65,0.75,0.85,0.92,0.96,0.99} of the model's own T_c (SAFT-VRQ Mie: tau >= 0.6; helium with fh = 2 outside the stated success domain: conditions only when Ok); total caloric properties use a constant c_p^ig = 4R Joback stand-in; critical conditions |V^2 dp_dv/NkT| <= 1e-6 and |V^3 d2p_dv2/NkT| <= 1e-4 are C06's thresholds");
    ctx.assume("gc substances: a finite pressure and residual Helmholtz energy at 350 K and 0.7 / 1e-3 of the maximum density; Joback route: positive finite c_p on the [200, 1000] K grid");
    let (cases, counts) = enumerate();
    ctx.extra("records_per_file", counts);
    ctx.run_lattice("records", cases, PanicPolicy::Violation, true, &check);
    ctx.extra("solver_observations_for_C04_C06", serde_json::json!(*SOLVER_NOTES.lock().unwrap()));
    ctx.extra(
        "worst_critical_conditions",
        serde_json::json!({"V2_dpdv_over_NkT": *WORST_CP1.lock().unwrap(), "V3_d2pdv2_over_NkT": *WORST_CP2.lock().unwrap(), "thresholds": [CP_DPDV, CP_D2PDV2]}),
    );
}

pub fn replay(ctx: &Ctx, _part: &str, case: &Value) -> bool {
    ctx.replay_case::<Case>(case, &check)
}
