//! Numerical oracles: Ridders' derivative with error estimate, small Jacobi eigen solver,
//! Richardson extrapolation helpers.

/// Ridders' method of polynomial extrapolation for the derivative of `f` at `x`
/// (Numerical Recipes `dfridr`). Returns (derivative, error estimate) or None if
/// `f` fails at any evaluation point.
pub fn ridders<F: FnMut(f64) -> Option<f64>>(mut f: F, x: f64, h0: f64) -> Option<(f64, f64)> {
    const NTAB: usize = 10;
    const CON: f64 = 1.4;
    const CON2: f64 = CON * CON;
    const SAFE: f64 = 2.0;
    let mut a = [[0.0f64; NTAB]; NTAB];
    let mut hh = h0;
    a[0][0] = (f(x + hh)? - f(x - hh)?) / (2.0 * hh);
    let mut err = f64::MAX;
    let mut ans = a[0][0];
    for i in 1..NTAB {
        hh /= CON;
        a[0][i] = (f(x + hh)? - f(x - hh)?) / (2.0 * hh);
        let mut fac = CON2;
        for j in 1..=i {
            a[j][i] = (a[j - 1][i] * fac - a[j - 1][i - 1]) / (fac - 1.0);
            fac *= CON2;
            let errt = (a[j][i] - a[j - 1][i]).abs().max((a[j][i] - a[j - 1][i - 1]).abs());
            if errt <= err {
                err = errt;
                ans = a[j][i];
            }
        }
        if (a[i][i] - a[i - 1][i - 1]).abs() >= SAFE * err {
            break;
        }
    }
    if ans.is_finite() {
        Some((ans, err))
    } else {
        None
    }
}

#[derive(Debug, Clone, Copy, PartialEq)]
pub enum DVerdict {
    Ok,
    Inconclusive,
    Mismatch,
}

/// Verdict for an analytic value `a` against a Ridders estimate (d, err) with scale s.
/// inconclusive if err > 1e-5*s; mismatch iff |a-d| > max(50*err, rtol*s).
pub fn derivative_verdict(a: f64, d: f64, err: f64, s: f64, rtol: f64) -> DVerdict {
    if !a.is_finite() {
        return DVerdict::Mismatch;
    }
    if !(err <= 1e-5 * s) {
        return DVerdict::Inconclusive;
    }
    if (a - d).abs() > (50.0 * err).max(rtol * s) {
        DVerdict::Mismatch
    } else {
        DVerdict::Ok
    }
}

/// Eigenvalues and eigenvectors of a small symmetric matrix (cyclic Jacobi).
/// Returns (eigenvalues, eigenvectors as columns).
pub fn jacobi_eigen(a_in: &[Vec<f64>]) -> (Vec<f64>, Vec<Vec<f64>>) {
    let n = a_in.len();
    let mut a: Vec<Vec<f64>> = a_in.to_vec();
    let mut v = vec![vec![0.0; n]; n];
    for (i, row) in v.iter_mut().enumerate() {
        row[i] = 1.0;
    }
    for _sweep in 0..100 {
        let mut off = 0.0;
        for i in 0..n {
            for j in i + 1..n {
                off += a[i][j] * a[i][j];
            }
        }
        let diag: f64 = (0..n).map(|i| a[i][i] * a[i][i]).sum();
        if off <= 1e-32 * diag.max(1e-300) {
            break;
        }
        for p in 0..n {
            for q in p + 1..n {
                if a[p][q].abs() < 1e-300 {
                    continue;
                }
                let theta = (a[q][q] - a[p][p]) / (2.0 * a[p][q]);
                let t = theta.signum() / (theta.abs() + (theta * theta + 1.0).sqrt());
                let t = if theta == 0.0 { 1.0 } else { t };
                let c = 1.0 / (t * t + 1.0).sqrt();
                let s = t * c;
                for k in 0..n {
                    let akp = a[k][p];
                    let akq = a[k][q];
                    a[k][p] = c * akp - s * akq;
                    a[k][q] = s * akp + c * akq;
                }
                for k in 0..n {
                    let apk = a[p][k];
                    let aqk = a[q][k];
                    a[p][k] = c * apk - s * aqk;
                    a[q][k] = s * apk + c * aqk;
                }
                for row in v.iter_mut() {
                    let vp = row[p];
                    let vq = row[q];
                    row[p] = c * vp - s * vq;
                    row[q] = s * vp + c * vq;
                }
            }
        }
    }
    ((0..n).map(|i| a[i][i]).collect(), v)
}

/// Neville extrapolation to h -> 0 of values y_k given at h_k (polynomial in h).
/// Returns (limit, error estimate = |last correction|).
pub fn neville_zero(h: &[f64], y: &[f64]) -> (f64, f64) {
    let n = h.len();
    let mut p: Vec<f64> = y.to_vec();
    let mut last = f64::MAX;
    let mut prev_best = y[n - 1];
    for m in 1..n {
        for i in 0..n - m {
            // interpolate at 0 between points i and i+m
            p[i] = ((0.0 - h[i + m]) * p[i] - (0.0 - h[i]) * p[i + 1]) / (h[i] - h[i + m]);
        }
        let best = p[n - m - 1];
        last = (best - prev_best).abs();
        prev_best = best;
    }
    (prev_best, last)
}

#[cfg(test)]
mod tests {
    use super::*;
    #[test]
    fn ridders_exp() {
        let (d, e) = ridders(|x| Some(x.exp()), 1.0, 0.1).unwrap();
        assert!((d - 1f64.exp()).abs() < 1e-10, "{d} {e}");
    }
    #[test]
    fn jacobi() {
        let (ev, _) = jacobi_eigen(&[vec![2.0, 1.0], vec![1.0, 2.0]]);
        let mut ev = ev;
        ev.sort_by(|a, b| a.partial_cmp(b).unwrap());
        assert!((ev[0] - 1.0).abs() < 1e-12 && (ev[1] - 3.0).abs() < 1e-12);
    }
}
