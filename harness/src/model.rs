//! Model zoo: serialisable `ModelSpec` -> feos models; generators for specs.
use crate::engine::{repo_root, Gen};
use feos::core::cubic::{PengRobinson, PengRobinsonParameters, PengRobinsonRecord};
use feos::core::parameter::{
    BinaryRecord, ChemicalRecord, Identifier, Parameter, ParameterHetero, PureRecord, SegmentRecord,
};
use feos::core::{Components, EquationOfState, ReferenceSystem, Residual, State};
use feos::epcsaft::{
    ElectrolytePcSaft, ElectrolytePcSaftBinaryRecord, ElectrolytePcSaftOptions,
    ElectrolytePcSaftParameters, ElectrolytePcSaftRecord, ElectrolytePcSaftVariants,
};
use feos::gc_pcsaft::{
    GcPcSaft, GcPcSaftEosParameters, GcPcSaftFunctional, GcPcSaftFunctionalParameters,
    GcPcSaftOptions, GcPcSaftRecord,
};
use feos::hard_sphere::{FMTFunctional, FMTVersion};
use feos::ideal_gas::{Dippr, DipprRecord, IdealGasModel, Joback, JobackRecord};
use feos::pcsaft::{
    DQVariants, PcSaft, PcSaftBinaryRecord, PcSaftFunctional, PcSaftOptions, PcSaftParameters,
    PcSaftRecord,
};
use feos::pets::{Pets, PetsBinaryRecord, PetsFunctional, PetsOptions, PetsParameters, PetsRecord};
use feos::saftvrmie::{
    SaftVRMie, SaftVRMieBinaryRecord, SaftVRMieOptions, SaftVRMieParameters, SaftVRMieRecord,
};
use feos::saftvrqmie::{
    SaftVRQMie, SaftVRQMieBinaryRecord, SaftVRQMieFunctional, SaftVRQMieOptions,
    SaftVRQMieParameters, SaftVRQMieRecord,
};
use feos::uvtheory::{
    Perturbation, UVTheory, UVTheoryBinaryRecord, UVTheoryOptions, UVTheoryParameters,
    UVTheoryRecord,
};
use feos::ResidualModel;
use ndarray::{Array1, Array2};
use quantity::*;
use serde::de::DeserializeOwned;
use serde::{Deserialize, Serialize};
use serde_json::{json, Value};
use std::collections::HashMap;
use std::sync::{Arc, LazyLock, Mutex};

pub type Model = ResidualModel;
pub type FullModel = EquationOfState<IdealGasModel, ResidualModel>;

#[derive(Serialize, Deserialize, Clone, Copy, Debug, PartialEq, Eq, Hash)]
pub enum Family {
    PengRobinson,
    PcSaft,
    EPcSaft,
    GcPcSaft,
    Pets,
    UVTheory,
    SaftVRMie,
    SaftVRQMie,
    PcSaftFunctional,
    GcPcSaftFunctional,
    PetsFunctional,
    FmtFunctional,
    SaftVRQMieFunctional,
}

pub const ALL_FAMILIES: [Family; 13] = [
    Family::PcSaft,
    Family::PengRobinson,
    Family::GcPcSaft,
    Family::SaftVRMie,
    Family::Pets,
    Family::UVTheory,
    Family::SaftVRQMie,
    Family::EPcSaft,
    Family::PcSaftFunctional,
    Family::GcPcSaftFunctional,
    Family::PetsFunctional,
    Family::FmtFunctional,
    Family::SaftVRQMieFunctional,
];

/// Option struct superset (fields unused by a family are ignored).
#[derive(Serialize, Deserialize, Clone, Debug, PartialEq)]
pub struct Opts {
    pub max_eta: f64,
    pub max_iter_cross_assoc: usize,
    pub tol_cross_assoc: f64,
    pub dq44: bool,
    /// 0 WhiteBear, 1 KierlikRosinberg, 2 AntiSymWhiteBear
    pub fmt: u8,
    /// 0 WCA, 1 BH, 2 WCA-B3
    pub perturbation: u8,
    pub epc_revised: bool,
    pub inc_nonadd: bool,
}

impl Default for Opts {
    fn default() -> Self {
        Self {
            max_eta: 0.5,
            max_iter_cross_assoc: 50,
            tol_cross_assoc: 1e-10,
            dq44: false,
            fmt: 0,
            perturbation: 0,
            epc_revised: false,
            inc_nonadd: true,
        }
    }
}

impl Opts {
    pub fn fmt_version(&self) -> FMTVersion {
        match self.fmt {
            0 => FMTVersion::WhiteBear,
            1 => FMTVersion::KierlikRosinberg,
            _ => FMTVersion::AntiSymWhiteBear,
        }
    }
    pub fn pcsaft(&self) -> PcSaftOptions {
        PcSaftOptions {
            max_eta: self.max_eta,
            max_iter_cross_assoc: self.max_iter_cross_assoc,
            tol_cross_assoc: self.tol_cross_assoc,
            dq_variant: if self.dq44 {
                DQVariants::DQ44
            } else {
                DQVariants::DQ35
            },
        }
    }
    pub fn gc(&self) -> GcPcSaftOptions {
        GcPcSaftOptions {
            max_eta: self.max_eta,
            max_iter_cross_assoc: self.max_iter_cross_assoc,
            tol_cross_assoc: self.tol_cross_assoc,
        }
    }
    pub fn vrmie(&self) -> SaftVRMieOptions {
        SaftVRMieOptions {
            max_eta: self.max_eta,
            max_iter_cross_assoc: self.max_iter_cross_assoc,
            tol_cross_assoc: self.tol_cross_assoc,
        }
    }
    pub fn vrq(&self) -> SaftVRQMieOptions {
        SaftVRQMieOptions {
            max_eta: self.max_eta,
            inc_nonadd_term: self.inc_nonadd,
        }
    }
    pub fn epc(&self) -> ElectrolytePcSaftOptions {
        ElectrolytePcSaftOptions {
            max_eta: self.max_eta,
            max_iter_cross_assoc: self.max_iter_cross_assoc,
            tol_cross_assoc: self.tol_cross_assoc,
            epcsaft_variant: if self.epc_revised {
                ElectrolytePcSaftVariants::Revised
            } else {
                ElectrolytePcSaftVariants::Advanced
            },
        }
    }
    pub fn uv(&self) -> UVTheoryOptions {
        UVTheoryOptions {
            max_eta: self.max_eta,
            perturbation: match self.perturbation {
                0 => Perturbation::WeeksChandlerAndersen,
                1 => Perturbation::BarkerHenderson,
                _ => Perturbation::WeeksChandlerAndersenB3,
            },
        }
    }
}

/// A fully serialisable description of a model.
///
/// * `pure`: JSON of `PureRecord<M>` of the family (GC families: `ChemicalRecord`;
///   FmtFunctional: `{"sigma": s}`).
/// * `binary`: (i, j, JSON of the family's binary record), i < j. Symmetric.
/// * `seg`: GC families: (segment file, optional binary segment file) relative to
///   /repo/parameters/pcsaft.
#[derive(Serialize, Deserialize, Clone, Debug, PartialEq)]
pub struct ModelSpec {
    pub family: Family,
    pub pure: Vec<Value>,
    pub binary: Vec<(usize, usize, Value)>,
    pub seg: Option<(String, Option<String>)>,
    pub opts: Opts,
    /// short label of the source of the records (for histograms)
    pub source: String,
}

fn parse<T: DeserializeOwned>(v: &Value) -> Result<T, String> {
    serde_json::from_value(v.clone()).map_err(|e| format!("record does not parse: {e}: {v}"))
}

fn pure_records<M: DeserializeOwned>(spec: &ModelSpec) -> Result<Vec<PureRecord<M>>, String> {
    spec.pure.iter().map(parse::<PureRecord<M>>).collect()
}

fn binary_matrix<B: DeserializeOwned + Default + Clone>(
    spec: &ModelSpec,
) -> Result<Option<Array2<B>>, String> {
    if spec.binary.is_empty() {
        return Ok(None);
    }
    let n = spec.pure.len();
    let mut m = Array2::from_elem((n, n), B::default());
    for (i, j, v) in &spec.binary {
        let b: B = parse(v)?;
        m[(*i, *j)] = b.clone();
        m[(*j, *i)] = b;
    }
    Ok(Some(m))
}

pub fn params_dir() -> std::path::PathBuf {
    repo_root().join("parameters")
}

pub fn load_json(rel: &str) -> Vec<Value> {
    let p = params_dir().join(rel);
    let s = std::fs::read_to_string(&p).unwrap_or_else(|e| panic!("read {p:?}: {e}"));
    serde_json::from_str(&s).unwrap_or_else(|e| panic!("parse {p:?}: {e}"))
}

impl ModelSpec {
    pub fn n(&self) -> usize {
        self.pure.len()
    }

    pub fn pcsaft_params(&self) -> Result<PcSaftParameters, String> {
        PcSaftParameters::from_records(
            pure_records::<PcSaftRecord>(self)?,
            binary_matrix::<PcSaftBinaryRecord>(self)?,
        )
        .map_err(|e| e.to_string())
    }
    pub fn epcsaft_params(&self) -> Result<ElectrolytePcSaftParameters, String> {
        ElectrolytePcSaftParameters::from_records(
            pure_records::<ElectrolytePcSaftRecord>(self)?,
            binary_matrix::<ElectrolytePcSaftBinaryRecord>(self)?,
        )
        .map_err(|e| e.to_string())
    }
    pub fn pets_params(&self) -> Result<PetsParameters, String> {
        PetsParameters::from_records(
            pure_records::<PetsRecord>(self)?,
            binary_matrix::<PetsBinaryRecord>(self)?,
        )
        .map_err(|e| e.to_string())
    }
    pub fn uv_params(&self) -> Result<UVTheoryParameters, String> {
        UVTheoryParameters::from_records(
            pure_records::<UVTheoryRecord>(self)?,
            binary_matrix::<UVTheoryBinaryRecord>(self)?,
        )
        .map_err(|e| e.to_string())
    }
    pub fn vrmie_params(&self) -> Result<SaftVRMieParameters, String> {
        SaftVRMieParameters::from_records(
            pure_records::<SaftVRMieRecord>(self)?,
            binary_matrix::<SaftVRMieBinaryRecord>(self)?,
        )
        .map_err(|e| e.to_string())
    }
    pub fn vrq_params(&self) -> Result<SaftVRQMieParameters, String> {
        SaftVRQMieParameters::from_records(
            pure_records::<SaftVRQMieRecord>(self)?,
            binary_matrix::<SaftVRQMieBinaryRecord>(self)?,
        )
        .map_err(|e| e.to_string())
    }
    pub fn pr_params(&self) -> Result<PengRobinsonParameters, String> {
        let n = self.n();
        let recs = pure_records::<PengRobinsonRecord>(self)?;
        let mut k = Array2::zeros((n, n));
        for (i, j, v) in &self.binary {
            let kij = v.as_f64().ok_or("PR k_ij must be a number")?;
            k[(*i, *j)] = kij;
            k[(*j, *i)] = kij;
        }
        PengRobinsonParameters::from_records(recs, if self.binary.is_empty() { None } else { Some(k) })
            .map_err(|e| e.to_string())
    }
    pub fn chemical_records(&self) -> Result<Vec<ChemicalRecord>, String> {
        self.pure.iter().map(parse::<ChemicalRecord>).collect()
    }
    pub fn gc_segments(
        &self,
    ) -> Result<(Vec<SegmentRecord<GcPcSaftRecord>>, Option<Vec<BinaryRecord<String, f64>>>), String>
    {
        let (sf, bf) = self.seg.clone().ok_or("GC spec without segment file")?;
        let segs: Vec<SegmentRecord<GcPcSaftRecord>> =
            SegmentRecord::from_json(params_dir().join("pcsaft").join(&sf)).map_err(|e| e.to_string())?;
        let bin = match bf {
            Some(b) => {
                let v = load_json(&format!("pcsaft/{b}"));
                Some(
                    v.iter()
                        .map(parse::<BinaryRecord<String, f64>>)
                        .collect::<Result<Vec<_>, _>>()?,
                )
            }
            None => None,
        };
        Ok((segs, bin))
    }
    pub fn gc_eos_params(&self) -> Result<GcPcSaftEosParameters, String> {
        let (segs, bin) = self.gc_segments()?;
        GcPcSaftEosParameters::from_segments(self.chemical_records()?, segs, bin)
            .map_err(|e| e.to_string())
    }
    pub fn gc_dft_params(&self) -> Result<GcPcSaftFunctionalParameters, String> {
        let (segs, bin) = self.gc_segments()?;
        GcPcSaftFunctionalParameters::from_segments(self.chemical_records()?, segs, bin)
            .map_err(|e| e.to_string())
    }
    pub fn fmt_sigma(&self) -> Result<Array1<f64>, String> {
        self.pure
            .iter()
            .map(|v| v["sigma"].as_f64().ok_or_else(|| "sigma".to_string()))
            .collect::<Result<Vec<_>, _>>()
            .map(Array1::from_vec)
    }

    /// Build the model wrapped in feos' own enum over all models.
    pub fn build(&self) -> Result<Arc<Model>, String> {
        let o = &self.opts;
        let m = match self.family {
            Family::PengRobinson => Model::PengRobinson(PengRobinson::new(Arc::new(self.pr_params()?))),
            Family::PcSaft => Model::PcSaft(PcSaft::with_options(Arc::new(self.pcsaft_params()?), o.pcsaft())),
            Family::EPcSaft => Model::ElectrolytePcSaft(ElectrolytePcSaft::with_options(
                Arc::new(self.epcsaft_params()?),
                o.epc(),
            )),
            Family::GcPcSaft => Model::GcPcSaft(GcPcSaft::with_options(Arc::new(self.gc_eos_params()?), o.gc())),
            Family::Pets => Model::Pets(Pets::with_options(
                Arc::new(self.pets_params()?),
                PetsOptions { max_eta: o.max_eta },
            )),
            Family::UVTheory => Model::UVTheory(UVTheory::with_options(Arc::new(self.uv_params()?), o.uv())),
            Family::SaftVRMie => {
                Model::SaftVRMie(SaftVRMie::with_options(Arc::new(self.vrmie_params()?), o.vrmie()))
            }
            Family::SaftVRQMie => {
                Model::SaftVRQMie(SaftVRQMie::with_options(Arc::new(self.vrq_params()?), o.vrq()))
            }
            Family::PcSaftFunctional => Model::PcSaftFunctional(PcSaftFunctional::with_options(
                Arc::new(self.pcsaft_params()?),
                o.fmt_version(),
                o.pcsaft(),
            )),
            Family::GcPcSaftFunctional => Model::GcPcSaftFunctional(GcPcSaftFunctional::with_options(
                Arc::new(self.gc_dft_params()?),
                o.fmt_version(),
                o.gc(),
            )),
            Family::PetsFunctional => Model::PetsFunctional(PetsFunctional::with_options(
                Arc::new(self.pets_params()?),
                o.fmt_version(),
                PetsOptions { max_eta: o.max_eta },
            )),
            Family::FmtFunctional => {
                Model::FmtFunctional(FMTFunctional::new(&self.fmt_sigma()?, o.fmt_version()))
            }
            Family::SaftVRQMieFunctional => Model::SaftVRQMieFunctional(SaftVRQMieFunctional::with_options(
                Arc::new(self.vrq_params()?),
                o.fmt_version(),
                o.vrq(),
            )),
        };
        Ok(Arc::new(m))
    }

    /// Components permuted: new component k is old component perm[k].
    pub fn permuted(&self, perm: &[usize]) -> ModelSpec {
        let mut inv = vec![0; perm.len()];
        for (k, &p) in perm.iter().enumerate() {
            inv[p] = k;
        }
        let mut s = self.clone();
        s.pure = perm.iter().map(|&p| self.pure[p].clone()).collect();
        s.binary = self
            .binary
            .iter()
            .map(|(i, j, v)| {
                let (a, b) = (inv[*i], inv[*j]);
                // site_indices of association overrides refer to (i,j) order: swap when order flips
                let mut v = v.clone();
                if a > b {
                    if let Some(si) = v.get("site_indices").cloned() {
                        if let Some(arr) = si.as_array() {
                            v["site_indices"] = json!([arr[1], arr[0]]);
                        }
                    }
                    (b, a, v)
                } else {
                    (a, b, v)
                }
            })
            .collect();
        s
    }

    /// Sub-model of the listed components (in the listed order), built directly.
    pub fn subset(&self, idx: &[usize]) -> ModelSpec {
        let mut s = self.clone();
        s.pure = idx.iter().map(|&p| self.pure[p].clone()).collect();
        s.binary = vec![];
        for (a, &ia) in idx.iter().enumerate() {
            for (b, &ib) in idx.iter().enumerate() {
                if a < b {
                    for (i, j, v) in &self.binary {
                        if (*i, *j) == (ia, ib) {
                            s.binary.push((a, b, v.clone()));
                        } else if (*i, *j) == (ib, ia) {
                            let mut v = v.clone();
                            if let Some(arr) = v.get("site_indices").and_then(|x| x.as_array()).cloned() {
                                v["site_indices"] = json!([arr[1], arr[0]]);
                            }
                            s.binary.push((a, b, v));
                        }
                    }
                }
            }
        }
        s
    }

    pub fn label(&self) -> String {
        format!("{:?}", self.family)
    }

    /// largest association energy eps_AB/k in K (pure records, binary overrides; 2600 K as the
    /// bound of the shipped group tables for group-contribution models); 0 without association
    pub fn max_eps_ab(&self) -> f64 {
        if !self.has_association() {
            return 0.0;
        }
        let mut e: f64 = 0.0;
        if matches!(self.family, Family::GcPcSaft | Family::GcPcSaftFunctional) {
            e = 2600.0;
        }
        for p in &self.pure {
            if let Some(v) = p["model_record"]["epsilon_k_ab"].as_f64() {
                e = e.max(v);
            }
        }
        for (_, _, b) in &self.binary {
            if let Some(v) = b["epsilon_k_ab"].as_f64() {
                e = e.max(v);
            }
        }
        e
    }

    pub fn has_association(&self) -> bool {
        self.pure.iter().any(|p| {
            let m = &p["model_record"];
            (m.get("kappa_ab").is_some() || m.get("rc_ab").is_some())
                && (m["na"].as_f64().unwrap_or(0.0) > 0.0
                    || m["nb"].as_f64().unwrap_or(0.0) > 0.0
                    || m["nc"].as_f64().unwrap_or(0.0) > 0.0)
        }) || (matches!(self.family, Family::GcPcSaft | Family::GcPcSaftFunctional)
            && self.pure.iter().any(|p| {
                p["segments"]
                    .as_array()
                    .map(|a| a.iter().any(|s| s == "OH" || s == "NH2"))
                    .unwrap_or(false)
            }))
    }
    pub fn n_assoc_components(&self) -> usize {
        (0..self.n())
            .filter(|&i| self.subset(&[i]).has_association())
            .count()
    }
    pub fn has_polar(&self) -> bool {
        self.pure.iter().any(|p| {
            let m = &p["model_record"];
            m["mu"].as_f64().unwrap_or(0.0) != 0.0 || m["q"].as_f64().unwrap_or(0.0) != 0.0
        })
    }
}

// ---------------------------------------------------------------------------------------
// Shipped record pools
// ---------------------------------------------------------------------------------------
pub struct Pools {
    /// PC-SAFT files in shrink order (simplest first)
    pub pcsaft: Vec<(&'static str, Vec<Value>)>,
    pub pcsaft_binary: Vec<Value>,
    pub vrmie: Vec<Value>,
    pub vrq: Vec<(&'static str, Vec<Value>)>,
    pub vrq_binary: Vec<(&'static str, Vec<Value>)>,
    pub epc: Vec<Value>,
    pub epc_binary: Vec<Value>,
    pub gc_substances: Vec<Value>,
    pub joback_segments: Vec<Value>,
    pub dippr: Vec<Value>,
}

pub const PCSAFT_FILES: [&str; 9] = [
    "gross2001.json",
    "gross2002.json",
    "gross2005_fit.json",
    "gross2005_literature.json",
    "gross2006.json",
    "rehner2020.json",
    "loetgeringlin2018.json",
    "eller2022.json",
    "esper2023.json",
];

pub const GC_HETERO_TABLES: [(&str, Option<&str>); 3] = [
    ("sauer2014_hetero.json", None),
    ("rehner2023_hetero.json", None),
    ("rehner2023_hetero.json", Some("rehner2023_hetero_binary.json")),
];

pub static POOLS: LazyLock<Pools> = LazyLock::new(|| Pools {
    pcsaft: PCSAFT_FILES
        .iter()
        .map(|f| (*f, load_json(&format!("pcsaft/{f}"))))
        .collect(),
    pcsaft_binary: load_json("pcsaft/gross2002_binary.json"),
    vrmie: load_json("saftvrmie/lafitte2013.json"),
    vrq: ["aasen2019.json", "aasen2019_fh2.json", "hammer2023.json"]
        .iter()
        .map(|f| (*f, load_json(&format!("saftvrqmie/{f}"))))
        .collect(),
    vrq_binary: ["aasen2020_binary.json", "aasen2020_binary_fh2.json"]
        .iter()
        .map(|f| (*f, load_json(&format!("saftvrqmie/{f}"))))
        .collect(),
    epc: load_json("epcsaft/held2014_w_permittivity_added.json"),
    epc_binary: load_json("epcsaft/held2014_binary.json"),
    gc_substances: load_json("pcsaft/gc_substances.json"),
    joback_segments: load_json("ideal_gas/joback1987.json"),
    dippr: load_json("ideal_gas/poling2000.json"),
});

fn ident_name(v: &Value) -> String {
    v["identifier"]["name"].as_str().unwrap_or("").to_string()
}

/// Look up a shipped binary record for two pure records (by name), either orientation.
pub fn shipped_binary(pool: &[Value], a: &Value, b: &Value) -> Option<Value> {
    let (na, nb) = (ident_name(a), ident_name(b));
    pool.iter()
        .find(|r| {
            let n1 = r["id1"]["name"].as_str().unwrap_or("");
            let n2 = r["id2"]["name"].as_str().unwrap_or("");
            (n1 == na && n2 == nb) || (n1 == nb && n2 == na)
        })
        .map(|r| r["model_record"].clone())
}

// ---------------------------------------------------------------------------------------
// Generators
// ---------------------------------------------------------------------------------------
fn rnd_ident(g: &mut Gen, k: usize) -> Value {
    let _ = g;
    json!({"name": format!("comp{k}"), "cas": format!("{}-00-{}", 100 + k, k)})
}

fn perturb(g: &mut Gen, v: &mut Value, key: &str, rel: f64) {
    if let Some(x) = v["model_record"][key].as_f64() {
        let f = 1.0 + g.range(-rel, rel);
        v["model_record"][key] = json!(x * f);
    }
}

/// random physical PC-SAFT record
pub fn random_pcsaft_record(g: &mut Gen, k: usize) -> Value {
    let m = g.range(1.0, 8.0);
    let sigma = g.range(2.5, 4.5);
    let eps = g.range(150.0, 400.0);
    let mut mr = json!({"m": m, "sigma": sigma, "epsilon_k": eps});
    if g.bool(0.4) {
        mr["kappa_ab"] = json!(g.log_range(1e-3, 0.2));
        mr["epsilon_k_ab"] = json!(g.range(1000.0, 3500.0));
        // na/nb/nc in {0,1,2}; at least one A-B pair or a C site
        // incl. acceptor-only / donor-only components (association only induced by a partner)
        let scheme = g.index(7);
        let (na, nb, nc) = [
            (1.0, 1.0, 0.0),
            (2.0, 1.0, 0.0),
            (2.0, 2.0, 0.0),
            (0.0, 0.0, 1.0),
            (1.0, 1.0, 1.0),
            (1.0, 0.0, 0.0),
            (0.0, 1.0, 0.0),
        ][scheme];
        mr["na"] = json!(na);
        mr["nb"] = json!(nb);
        mr["nc"] = json!(nc);
    }
    if g.bool(0.3) {
        mr["mu"] = json!(g.range(0.5, 4.0));
    }
    if g.bool(0.3) {
        mr["q"] = json!(g.range(1.0, 8.0));
    }
    json!({"identifier": rnd_ident(g, k), "molarweight": g.range(16.0, 200.0), "model_record": mr})
}

fn pick_pcsaft_shipped(g: &mut Gen) -> (Value, &'static str) {
    // esper2023 is large: weight files roughly equally instead of by size
    let fi = g.index(POOLS.pcsaft.len());
    let (name, recs) = &POOLS.pcsaft[fi];
    (recs[g.index(recs.len())].clone(), name)
}

fn gen_opts(g: &mut Gen, family: Family) -> Opts {
    let mut o = Opts::default();
    if g.bool(0.3) {
        o.max_eta = g.range(0.4, 0.6);
    }
    if g.bool(0.2) {
        o.max_iter_cross_assoc = g.int(50, 200) as usize;
        o.tol_cross_assoc = g.log_range(1e-12, 1e-10);
    }
    o.dq44 = g.bool(0.3);
    match family {
        Family::PcSaftFunctional
        | Family::PetsFunctional
        | Family::FmtFunctional
        | Family::SaftVRQMieFunctional
        | Family::GcPcSaftFunctional => o.fmt = g.index(3) as u8,
        _ => {}
    }
    if family == Family::UVTheory {
        o.perturbation = g.index(3) as u8;
    }
    if family == Family::EPcSaft {
        o.epc_revised = g.bool(0.4);
    }
    if matches!(family, Family::SaftVRQMie | Family::SaftVRQMieFunctional) {
        o.inc_nonadd = !g.bool(0.3);
    }
    o
}

pub struct GenCfg {
    pub families: Vec<Family>,
    pub max_comp: usize,
    pub min_comp: usize,
}

impl GenCfg {
    pub fn all(max_comp: usize) -> Self {
        Self {
            families: ALL_FAMILIES.to_vec(),
            max_comp,
            min_comp: 1,
        }
    }
}

/// Generate a model spec. Gene 0 everywhere => pure methane PC-SAFT with default options.
pub fn gen_model(g: &mut Gen, cfg: &GenCfg) -> ModelSpec {
    let family = g.pick(&cfg.families);
    let mut n = cfg.min_comp + g.index(cfg.max_comp - cfg.min_comp + 1);
    let mut opts = gen_opts(g, family);
    let mut source = String::new();
    let mut pure: Vec<Value> = vec![];
    let mut binary: Vec<(usize, usize, Value)> = vec![];
    let mut seg = None;
    match family {
        Family::PcSaft | Family::PcSaftFunctional => {
            let mode = g.index(3); // 0 shipped, 1 perturbed shipped, 2 random
            for k in 0..n {
                match mode {
                    0 | 1 => {
                        let (mut r, f) = pick_pcsaft_shipped(g);
                        if mode == 1 {
                            perturb(g, &mut r, "m", 0.2);
                            if r["model_record"]["m"].as_f64().unwrap() < 1.0 {
                                r["model_record"]["m"] = json!(1.0);
                            }
                            perturb(g, &mut r, "sigma", 0.2);
                            perturb(g, &mut r, "epsilon_k", 0.2);
                            perturb(g, &mut r, "mu", 0.2);
                            perturb(g, &mut r, "q", 0.2);
                            perturb(g, &mut r, "epsilon_k_ab", 0.1);
                        }
                        source = format!("{}{}", if mode == 1 { "perturbed:" } else { "shipped:" }, f);
                        pure.push(r);
                    }
                    _ => {
                        source = "random".into();
                        pure.push(random_pcsaft_record(g, k));
                    }
                }
            }
            for i in 0..n {
                for j in i + 1..n {
                    let mut b = json!({});
                    let mut any = false;
                    if let Some(s) = shipped_binary(&POOLS.pcsaft_binary, &pure[i], &pure[j]) {
                        b = s;
                        any = true;
                    } else if g.bool(0.6) {
                        b["k_ij"] = json!(g.range(-0.15, 0.15));
                        any = true;
                    }
                    let both_assoc = pure[i]["model_record"].get("kappa_ab").is_some()
                        && pure[j]["model_record"].get("kappa_ab").is_some();
                    if both_assoc && g.bool(0.3) {
                        b["kappa_ab"] = json!(g.log_range(1e-3, 0.2));
                        b["epsilon_k_ab"] = json!(g.range(1000.0, 3500.0));
                        any = true;
                    }
                    if any {
                        binary.push((i, j, b));
                    }
                }
            }
        }
        Family::PengRobinson => {
            source = "random".into();
            for k in 0..n {
                let tc = g.range(100.0, 800.0);
                let pc = g.range(5e5, 100e5);
                let w = g.range(-0.1, 0.9);
                pure.push(json!({"identifier": rnd_ident(g, k), "molarweight": g.range(16.0, 200.0),
                    "model_record": {"tc": tc, "pc": pc, "acentric_factor": w}}));
            }
            for i in 0..n {
                for j in i + 1..n {
                    if g.bool(0.6) {
                        binary.push((i, j, json!(g.range(-0.15, 0.15))));
                    }
                }
            }
        }
        Family::Pets | Family::PetsFunctional => {
            source = "random".into();
            for k in 0..n {
                pure.push(json!({"identifier": rnd_ident(g, k), "molarweight": g.range(16.0, 200.0),
                    "model_record": {"sigma": g.range(2.5, 4.5), "epsilon_k": g.range(80.0, 400.0)}}));
            }
            for i in 0..n {
                for j in i + 1..n {
                    if g.bool(0.6) {
                        binary.push((i, j, json!({"k_ij": g.range(-0.15, 0.15)})));
                    }
                }
            }
        }
        Family::UVTheory => {
            source = "random".into();
            // BH and B3 variants: pure only in this generator unless supported
            for k in 0..n {
                pure.push(json!({"identifier": rnd_ident(g, k), "molarweight": g.range(16.0, 200.0),
                    "model_record": {"rep": g.range(8.0, 24.0), "att": 6.0, "sigma": g.range(2.5, 4.5), "epsilon_k": g.range(80.0, 400.0)}}));
            }
            for i in 0..n {
                for j in i + 1..n {
                    if g.bool(0.6) {
                        binary.push((i, j, json!({"k_ij": g.range(-0.15, 0.15)})));
                    }
                }
            }
        }
        Family::SaftVRMie => {
            let mode = g.index(2);
            for k in 0..n {
                if mode == 0 {
                    source = "shipped:lafitte2013".into();
                    pure.push(POOLS.vrmie[g.index(POOLS.vrmie.len())].clone());
                } else {
                    source = "random".into();
                    let mut mr = json!({"m": g.range(1.0, 5.0), "sigma": g.range(2.8, 4.8), "epsilon_k": g.range(100.0, 450.0),
                        "lr": g.range(8.0, 30.0), "la": 6.0});
                    if g.bool(0.5) {
                        mr["rc_ab"] = json!(g.range(0.3, 0.45));
                        mr["epsilon_k_ab"] = json!(g.range(1500.0, 3000.0));
                        // site schemes incl. donor/acceptor-asymmetric ones (2B, 3B, 4C, ...)
                        let (na, nb) = [(1.0, 1.0), (1.0, 2.0), (2.0, 1.0), (2.0, 2.0), (1.0, 3.0)][g.index(5)];
                        mr["na"] = json!(na);
                        mr["nb"] = json!(nb);
                    }
                    pure.push(json!({"identifier": rnd_ident(g, k), "molarweight": g.range(16.0, 200.0), "model_record": mr}));
                }
            }
            for i in 0..n {
                for j in i + 1..n {
                    let mut b = json!({});
                    let mut any = false;
                    if g.bool(0.6) {
                        b["k_ij"] = json!(g.range(-0.1, 0.1));
                        if g.bool(0.3) {
                            b["gamma_ij"] = json!(g.range(-0.1, 0.1));
                        }
                        any = true;
                    }
                    // binary association override for a pair of associating components
                    let both_assoc = pure[i]["model_record"].get("rc_ab").is_some() && pure[j]["model_record"].get("rc_ab").is_some();
                    if both_assoc && g.bool(0.5) {
                        b["rc_ab"] = json!(g.range(0.3, 0.5));
                        b["epsilon_k_ab"] = json!(g.range(1200.0, 3000.0));
                        any = true;
                    }
                    if any {
                        binary.push((i, j, b));
                    }
                }
            }
        }
        Family::SaftVRQMie | Family::SaftVRQMieFunctional => {
            n = n.min(3);
            let fi = g.index(POOLS.vrq.len());
            let (fname, recs) = &POOLS.vrq[fi];
            source = format!("shipped:{fname}");
            // distinct records (binary files refer to distinct pairs)
            let mut idx: Vec<usize> = (0..recs.len()).collect();
            // optional override of the Feynman-Hibbs order (same for all components: orders 1 and 2 cannot be combined)
            let fh_override = if g.bool(0.2) { Some(g.index(3)) } else { None };
            for k in 0..n {
                let j = k + g.index(idx.len() - k);
                idx.swap(k, j);
                let mut r = recs[idx[k]].clone();
                if let Some(fh) = fh_override {
                    r["model_record"]["fh"] = json!(fh);
                    source = format!("fh-modified:{fname}");
                }
                pure.push(r);
            }
            let bpool = &POOLS.vrq_binary[if fi == 1 { 1 } else { 0 }].1;
            for i in 0..n {
                for j in i + 1..n {
                    if let Some(b) = shipped_binary(bpool, &pure[i], &pure[j]) {
                        binary.push((i, j, b));
                    } else if g.bool(0.5) {
                        binary.push((i, j, json!({"k_ij": g.range(-0.1, 0.1), "l_ij": g.range(-0.05, 0.05)})));
                    }
                }
            }
        }
        Family::EPcSaft => {
            // 0: ion-free mirrored PC-SAFT (non-polar) records; 1: water + one salt (cation+anion)
            let mode = g.index(2);
            if mode == 0 {
                source = "ion-free".into();
                let files = [0usize, 1]; // gross2001, gross2002
                for _ in 0..n {
                    let (_, recs) = &POOLS.pcsaft[files[g.index(2)]];
                    pure.push(recs[g.index(recs.len())].clone());
                }
                for i in 0..n {
                    for j in i + 1..n {
                        if g.bool(0.5) {
                            binary.push((i, j, json!({"k_ij": [g.range(-0.1, 0.1), 0.0, 0.0, 0.0]})));
                        }
                    }
                }
            } else {
                source = "shipped:held2014".into();
                // the revised variant documents that it has no ionic contribution (constructor panics)
                opts.epc_revised = false;
                let water = POOLS.epc[0].clone();
                let cations: Vec<&Value> = POOLS.epc.iter().filter(|r| r["model_record"]["z"].as_f64() == Some(1.0)).collect();
                let anions: Vec<&Value> = POOLS.epc.iter().filter(|r| r["model_record"]["z"].as_f64() == Some(-1.0)).collect();
                pure.push(water);
                pure.push((*g.pick(&cations)).clone());
                pure.push((*g.pick(&anions)).clone());
                for i in 0..3 {
                    for j in i + 1..3 {
                        if let Some(b) = shipped_binary(&POOLS.epc_binary, &pure[i], &pure[j]) {
                            binary.push((i, j, b));
                        }
                    }
                }
            }
        }
        Family::GcPcSaft | Family::GcPcSaftFunctional => {
            n = n.min(3);
            let (sf, bf) = g.pick(&GC_HETERO_TABLES);
            seg = Some((sf.to_string(), bf.map(|s| s.to_string())));
            source = format!("gc:{sf}{}", if bf.is_some() { "+binary" } else { "" });
            // segment tables of the three hetero files share the same 22 group names
            for _ in 0..n {
                let r = POOLS.gc_substances[g.index(POOLS.gc_substances.len())].clone();
                pure.push(r);
            }
        }
        Family::FmtFunctional => {
            source = "random".into();
            for _ in 0..n {
                pure.push(json!({"sigma": g.range(2.5, 4.5)}));
            }
        }
    }
    ModelSpec {
        family,
        pure,
        binary,
        seg,
        opts,
        source,
    }
}

// ---------------------------------------------------------------------------------------
// Temperature scale (pure-component critical temperatures), cached
// ---------------------------------------------------------------------------------------
static TC_CACHE: LazyLock<Mutex<HashMap<String, f64>>> = LazyLock::new(|| Mutex::new(HashMap::new()));

fn tc_fallback(spec: &ModelSpec, i: usize) -> f64 {
    let mr = &spec.pure[i]["model_record"];
    match spec.family {
        Family::PengRobinson => mr["tc"].as_f64().unwrap_or(300.0),
        Family::FmtFunctional => 300.0,
        Family::GcPcSaft | Family::GcPcSaftFunctional => 500.0,
        _ => {
            let e = mr["epsilon_k"].as_f64().unwrap_or(250.0);
            let m = mr["m"].as_f64().unwrap_or(1.0);
            1.3 * e * (1.0 + 0.1 * (m - 1.0))
        }
    }
}

/// Critical temperature (K) of pure component i of the spec (as a *scale* only).
pub fn pure_tc(spec: &ModelSpec, model: &Arc<Model>, i: usize) -> f64 {
    if spec.family == Family::PengRobinson {
        return tc_fallback(spec, i);
    }
    if spec.family == Family::FmtFunctional {
        return 300.0;
    }
    let key = format!("{:?}|{}|{:?}|{:?}", spec.family, spec.pure[i], spec.seg, spec.opts);
    if let Some(t) = TC_CACHE.lock().unwrap().get(&key) {
        return *t;
    }
    let tc = (|| {
        // ions have no critical point: use fallback
        if spec.pure[i]["model_record"]["z"].as_f64().unwrap_or(0.0) != 0.0 {
            return None;
        }
        let sub = Arc::new(model.subset(&[i]));
        let r = std::panic::catch_unwind(std::panic::AssertUnwindSafe(|| {
            State::critical_point(&sub, None, None, Default::default())
        }));
        match r {
            Ok(Ok(cp)) => {
                let t = cp.temperature.convert_to(KELVIN);
                if t.is_finite() && t > 1.0 {
                    Some(t)
                } else {
                    None
                }
            }
            _ => None,
        }
    })()
    .unwrap_or_else(|| tc_fallback(spec, i));
    // A converged "critical point" far below the non-associating estimate is a spurious root
    // (association, polarity and chain length can only raise T_c above 1.3 eps/k): floor it.
    let tc = if matches!(spec.family, Family::GcPcSaft | Family::GcPcSaftFunctional) {
        tc
    } else {
        tc.max(tc_fallback(spec, i))
    };
    TC_CACHE.lock().unwrap().insert(key, tc);
    tc
}

/// Mole-fraction average of the pure critical temperatures.
pub fn t_scale(spec: &ModelSpec, model: &Arc<Model>, x: &[f64]) -> f64 {
    (0..spec.n()).map(|i| x[i] * pure_tc(spec, model, i)).sum()
}

// ---------------------------------------------------------------------------------------
// State spec
// ---------------------------------------------------------------------------------------
#[derive(Serialize, Deserialize, Clone, Debug, PartialEq)]
pub struct StateSpec {
    /// T / T*
    pub tau: f64,
    /// rho / max_density(x)
    pub f_eta: f64,
    pub x: Vec<f64>,
    /// total moles (mol)
    pub lambda: f64,
    /// replay files of findings recorded before the association floor of the temperature existed
    /// (never set by a generator)
    #[serde(default, skip_serializing_if = "std::ops::Not::not")]
    pub no_t_floor: bool,
}

/// Upper bound of eps_AB / T in generated states. Below T = eps_AB/25 the association strength
/// exp(eps_AB/T) exceeds 7e10 and the monomer fractions (closed form and Newton solver alike) lose
/// more digits than any tolerance of this suite can absorb; such temperatures (water below 100 K,
/// an alcohol at 0.4 x the critical temperature of a hydrogen-rich mixture) are far below the
/// triple point of the associating component and outside the range of the models. Every shipped
/// associating record at 0.4 T_c of the pure component has eps_AB/T < 22.
pub const MAX_EPS_AB_OVER_T: f64 = 25.0;

pub fn gen_state(g: &mut Gen, n: usize) -> StateSpec {
    let tau = g.range(0.4, 3.0);
    // half of the cases log-uniform over the whole range, half uniform over gas-like to dense
    let dense = g.bool(0.5);
    let u = g.unit();
    let f_eta = if dense {
        0.02 + u * 0.88
    } else {
        (2e-6f64.ln() + u * (0.9f64.ln() - 2e-6f64.ln())).exp()
    };
    StateSpec {
        tau,
        f_eta,
        x: g.simplex(n, 1e-3),
        lambda: g.log_range(1e-3, 1e3),
        no_t_floor: false,
    }
}

/// electroneutral composition for the water+cation+anion ePC-SAFT specs
pub fn neutralise(spec: &ModelSpec, x: &mut [f64]) {
    if spec.family == Family::EPcSaft && spec.source.starts_with("shipped") && x.len() == 3 {
        let salt = (x[1] + x[2]).min(0.2);
        x[1] = salt / 2.0;
        x[2] = salt / 2.0;
        x[0] = 1.0 - salt;
    }
}

pub struct Built {
    pub t: f64,       // K
    pub rho: f64,     // reduced (1/A^3) total density
    pub moles: Array1<f64>, // mol
    pub volume: f64,  // reduced? no: see build_state
}

/// Build (T, V, N) in SI-quantities from a StateSpec.
pub fn state_inputs(
    spec: &ModelSpec,
    model: &Arc<Model>,
    s: &StateSpec,
) -> Result<(Temperature, Volume, Moles<Array1<f64>>), String> {
    let mut x = s.x.clone();
    neutralise(spec, &mut x);
    let mut t = s.tau * t_scale(spec, model, &x);
    if spec.family == Family::EPcSaft && spec.source.starts_with("shipped") {
        // electrolyte solutions: the shipped permittivity correlations are fitted to 280-360 K
        t = 280.0 + (s.tau - 0.4) / 2.6 * 90.0;
    }
    if !s.no_t_floor {
        t = t.max(spec.max_eps_ab() / MAX_EPS_AB_OVER_T);
    }
    let moles = Array1::from_vec(x.iter().map(|xi| xi * s.lambda).collect()) * MOL;
    let rho = if spec.family == Family::FmtFunctional {
        // FMTFunctional::compute_max_density is only a rough guess (1.2/sigma); use the packing fraction
        let sig = spec.fmt_sigma()?;
        let v: f64 = x.iter().zip(sig.iter()).map(|(xi, s)| xi * std::f64::consts::FRAC_PI_6 * s.powi(3)).sum();
        Density::from_reduced(s.f_eta * spec.opts.max_eta / v)
    } else {
        s.f_eta * model.max_density(Some(&moles)).map_err(|e| e.to_string())?
    };
    let v = moles.sum() / rho;
    Ok((t * KELVIN, v, moles))
}

pub fn build_state<E: Residual>(
    eos: &Arc<E>,
    inputs: &(Temperature, Volume, Moles<Array1<f64>>),
) -> Result<State<E>, String> {
    State::new_nvt(eos, inputs.0, inputs.1, &inputs.2).map_err(|e| e.to_string())
}

// ---------------------------------------------------------------------------------------
// Ideal-gas models for totals
// ---------------------------------------------------------------------------------------
/// A DIPPR ideal gas model with n components (records from poling2000 by index).
pub fn dippr_model(indices: &[usize]) -> Result<IdealGasModel, String> {
    let recs: Vec<PureRecord<DipprRecord>> = indices
        .iter()
        .map(|&i| parse(&POOLS.dippr[i % POOLS.dippr.len()]))
        .collect::<Result<_, _>>()?;
    Ok(IdealGasModel::Dippr(Arc::new(
        Dippr::from_records(recs, None).map_err(|e| e.to_string())?,
    )))
}

pub fn joback_model(coefs: &[[f64; 5]]) -> Result<IdealGasModel, String> {
    let recs: Vec<PureRecord<JobackRecord>> = coefs
        .iter()
        .map(|c| PureRecord::new(Identifier::default(), 1.0, JobackRecord::new(c[0], c[1], c[2], c[3], c[4])))
        .collect();
    Ok(IdealGasModel::Joback(Arc::new(
        Joback::from_records(recs, None).map_err(|e| e.to_string())?,
    )))
}

pub fn full_model(ig: IdealGasModel, residual: Arc<Model>) -> Arc<FullModel> {
    Arc::new(EquationOfState::new(Arc::new(ig), residual))
}
