//! check <Cxx> [--tier quick|thorough] [--replay file]
use feos_verif::engine::{quiet_panics, Ctx, Tier};
use feos_verif::props::registry;

fn main() {
    let args: Vec<String> = std::env::args().collect();
    if args.len() < 2 {
        eprintln!("usage: check <Cxx> [--tier quick|thorough] [--replay file]");
        std::process::exit(2);
    }
    let id = args[1].clone();
    let mut tier = match std::env::var("VERIF_TIER").as_deref() {
        Ok("thorough") => Tier::Thorough,
        _ => Tier::Quick,
    };
    let mut replay: Option<String> = None;
    let mut i = 2;
    while i < args.len() {
        match args[i].as_str() {
            "--tier" => {
                i += 1;
                tier = if args[i] == "thorough" { Tier::Thorough } else { Tier::Quick };
            }
            "quick" => tier = Tier::Quick,
            "thorough" => tier = Tier::Thorough,
            "--replay" => {
                i += 1;
                replay = Some(args[i].clone());
            }
            other => {
                eprintln!("unknown argument {other}");
                std::process::exit(2);
            }
        }
        i += 1;
    }
    let seed: u64 = std::env::var("VERIF_SEED")
        .ok()
        .and_then(|s| s.trim().parse::<i128>().ok())
        .map(|v| v as u64)
        .unwrap_or(0);
    let reg = registry();
    let Some(prop) = reg.iter().find(|p| p.id == id) else {
        eprintln!("unknown property {id}");
        std::process::exit(2);
    };
    quiet_panics();
    let ctx = Ctx::new(&id, tier, seed);
    if let Some(file) = replay {
        // libFuzzer artifact (raw bytes): file name is <target>-crash-<hash>, target = cNN_<part>
        let base = std::path::Path::new(&file).file_name().map(|f| f.to_string_lossy().to_string()).unwrap_or_default();
        if let Some(rest) = base.strip_prefix(&format!("{}_", id.to_lowercase())) {
            if !base.ends_with(".json") {
                let part = rest.split('-').next().unwrap_or("").to_string();
                let data = std::fs::read(&file).unwrap_or_else(|e| {
                    eprintln!("cannot read {file}: {e}");
                    std::process::exit(2)
                });
                match feos_verif::fuzz::try_one(&id, &part, &data) {
                    Ok(()) => {
                        println!("PASS");
                        std::process::exit(0)
                    }
                    Err(m) => {
                        println!("FAIL: {m}");
                        println!("VIOLATION property={id} replay={file}");
                        std::process::exit(1)
                    }
                }
            }
        }
        let s = std::fs::read_to_string(&file).unwrap_or_else(|e| {
            eprintln!("cannot read {file}: {e}");
            std::process::exit(2)
        });
        let v: serde_json::Value = serde_json::from_str(&s).unwrap_or_else(|e| {
            eprintln!("cannot parse {file}: {e}");
            std::process::exit(2)
        });
        let part = v["part"].as_str().unwrap_or("").to_string();
        let ok = (prop.replay)(&ctx, &part, &v["case"]);
        if !ok {
            println!("VIOLATION property={id} replay={file}");
            std::process::exit(1);
        }
        std::process::exit(0);
    }
    ctx.clear_old_replays();
    let r = std::panic::catch_unwind(std::panic::AssertUnwindSafe(|| (prop.run)(&ctx)));
    if let Err(e) = r {
        let m = e.downcast_ref::<String>().cloned().or_else(|| e.downcast_ref::<&str>().map(|s| s.to_string())).unwrap_or_default();
        eprintln!("harness failure (inconclusive): {m}");
        std::process::exit(2);
    }
    std::process::exit(ctx.finish());
}
