//! Glue for coverage-guided fuzzing: libFuzzer bytes -> genome -> the same decode + check
//! functions the proptest parts use. The oracle runs inside the target.
use crate::engine::{Gen, Obs};
use crate::props;
use std::panic::{catch_unwind, AssertUnwindSafe};

pub fn genome_from_bytes(data: &[u8]) -> Vec<u32> {
    data.chunks(4)
        .map(|c| {
            let mut b = [0u8; 4];
            b[..c.len()].copy_from_slice(c);
            u32::from_le_bytes(b)
        })
        .collect()
}

fn exec<C: serde::Serialize>(
    genome: &[u32],
    decode: &dyn Fn(&mut Gen) -> C,
    check: &dyn Fn(&C, &mut Obs),
    panic_is_violation: bool,
) -> Result<(), String> {
    let case = decode(&mut Gen::new(genome));
    let mut obs = Obs::default();
    let r = catch_unwind(AssertUnwindSafe(|| check(&case, &mut obs)));
    if r.is_err() && panic_is_violation {
        obs.fail("PANIC inside the case");
    }
    if obs.fails.is_empty() {
        Ok(())
    } else {
        Err(format!(
            "{}\ncase: {}",
            obs.fails.join(" | "),
            serde_json::to_string(&case).unwrap_or_default()
        ))
    }
}

/// Run one fuzz input through part `part` of property `prop`. Returns Err(message) on an
/// unlisted violation (known findings are tolerated exactly as in the proptest parts).
pub fn try_one(prop: &str, part: &str, data: &[u8]) -> Result<(), String> {
    let g = genome_from_bytes(data);
    match (prop, part) {
        ("C01", "sampled") => exec(&g, &props::c01::decode, &props::c01::check, false),
        ("C02", "sampled") => exec(&g, &props::c02::decode, &props::c02::check, false),
        ("C11", "history") => exec(&g, &props::c11::decode_history, &props::c11::check, false),
        ("C03", "tp") => exec(&g, &props::c03::decode_tp, &props::c03::check_tp, false),
        ("C05", "points") => exec(&g, &props::c05::decode_points, &props::c05::check_points, false),
        ("C07", "mix") => exec(&g, &props::c07::decode_mix, &props::c07::check_mix, false),
        ("C13", "sampled") => exec(&g, &props::c13::decode, &props::c13::check, false),
        ("C14", "serde") => exec(&g, &props::c14::decode_serde, &props::c14::check_serde, true),
        _ => Err(format!("no fuzz glue for {prop}/{part}")),
    }
}

/// Entry point of the fuzz targets: abort (so that libFuzzer saves the input) on a violation.
pub fn run_one(prop: &str, part: &str, data: &[u8]) {
    static HOOK: std::sync::Once = std::sync::Once::new();
    HOOK.call_once(|| {
        // panics inside cases are caught and judged by the part's policy: keep stderr quiet
        std::panic::set_hook(Box::new(|_| {}));
    });
    if let Err(m) = try_one(prop, part, data) {
        eprintln!("VIOLATION-IN-FUZZ-TARGET property={prop} part={part}: {m}");
        std::process::abort();
    }
}
