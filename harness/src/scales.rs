//! Cancellation-safe scales: per-contribution values of the derivatives of the residual
//! Helmholtz energy A = (beta A)*T (reduced units), evaluated through the public
//! `State::derive*` / `Residual::residual_helmholtz_energy_contributions` route.
use feos::core::{Derivative, Residual, State};
use num_dual::DualNum;

#[derive(Clone, Copy, Debug, PartialEq)]
pub enum PD {
    Zeroth,
    First(Derivative),
    Second(Derivative),
    Mixed(Derivative, Derivative),
    Third(Derivative),
}

/// (name, d^k A_c) for every contribution c.
pub fn contrib_values<E: Residual>(s: &State<E>, d: PD) -> Vec<(String, f64)> {
    match d {
        PD::Zeroth => {
            let hd = s.derive0();
            s.eos
                .residual_helmholtz_energy_contributions(&hd)
                .into_iter()
                .map(|(n, a)| (n, a * hd.temperature))
                .collect()
        }
        PD::First(v) => {
            let hd = s.derive1(v);
            s.eos
                .residual_helmholtz_energy_contributions(&hd)
                .into_iter()
                .map(|(n, a)| (n, (a * hd.temperature).eps))
                .collect()
        }
        PD::Second(v) => {
            let hd = s.derive2(v);
            s.eos
                .residual_helmholtz_energy_contributions(&hd)
                .into_iter()
                .map(|(n, a)| (n, (a * hd.temperature).v2))
                .collect()
        }
        PD::Mixed(v1, v2) => {
            let hd = s.derive2_mixed(v1, v2);
            s.eos
                .residual_helmholtz_energy_contributions(&hd)
                .into_iter()
                .map(|(n, a)| (n, (a * hd.temperature).eps1eps2))
                .collect()
        }
        PD::Third(v) => {
            let hd = s.derive3(v);
            s.eos
                .residual_helmholtz_energy_contributions(&hd)
                .into_iter()
                .map(|(n, a)| (n, (a * hd.temperature).v3))
                .collect()
        }
    }
}

/// Sum over contributions of |d^k A_c|.
pub fn contrib_abs<E: Residual>(s: &State<E>, d: PD) -> f64 {
    contrib_values(s, d).iter().map(|(_, v)| v.abs()).sum()
}

/// Sum over contributions (the library total, recomputed).
pub fn contrib_sum<E: Residual>(s: &State<E>, d: PD) -> f64 {
    contrib_values(s, d).iter().map(|(_, v)| *v).sum()
}

#[allow(dead_code)]
fn _t<D: DualNum<f64>>() {}
