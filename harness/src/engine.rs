//! Engine: genome-based generation on top of proptest, sharding, shrinking -> replay,
//! evidence writer, known-finding handling.
use proptest::strategy::Strategy;
use proptest::test_runner::{Config, RngSeed, TestCaseError, TestError, TestRunner};
use rayon::prelude::*;
use serde::de::DeserializeOwned;
use serde::Serialize;
use serde_json::{json, Value};
use std::collections::hash_map::DefaultHasher;
use std::collections::{BTreeMap, HashSet};
use std::hash::{Hash, Hasher};
use std::panic::{catch_unwind, AssertUnwindSafe};
use std::path::PathBuf;
use std::sync::atomic::{AtomicBool, Ordering};
use std::sync::Mutex;
use std::time::Instant;

pub fn verif_root() -> PathBuf {
    if let Ok(r) = std::env::var("VERIF_ROOT") {
        return PathBuf::from(r);
    }
    PathBuf::from(concat!(env!("CARGO_MANIFEST_DIR"), "/.."))
}

pub fn repo_root() -> PathBuf {
    if let Ok(r) = std::env::var("VERIF_REPO") {
        return PathBuf::from(r);
    }
    PathBuf::from("/repo")
}

// ---------------------------------------------------------------------------------------
// Gen: decoder of a genome (vector of u32 produced by proptest) into structured choices.
// All mappings are monotone so that shrinking a gene towards 0 moves towards the first
// index / lower bound. An exhausted genome yields 0 (the simplest choice).
// ---------------------------------------------------------------------------------------
pub struct Gen<'a> {
    data: &'a [u32],
    pos: usize,
}

impl<'a> Gen<'a> {
    pub fn new(data: &'a [u32]) -> Self {
        Self { data, pos: 0 }
    }
    pub fn raw(&mut self) -> u32 {
        let v = self.data.get(self.pos).copied().unwrap_or(0);
        self.pos += 1;
        v
    }
    /// uniform in [0,1)
    pub fn unit(&mut self) -> f64 {
        self.raw() as f64 / 4294967296.0
    }
    pub fn range(&mut self, lo: f64, hi: f64) -> f64 {
        lo + self.unit() * (hi - lo)
    }
    pub fn log_range(&mut self, lo: f64, hi: f64) -> f64 {
        (lo.ln() + self.unit() * (hi.ln() - lo.ln())).exp()
    }
    /// index in 0..n (monotone in the gene)
    pub fn index(&mut self, n: usize) -> usize {
        if n == 0 {
            return 0;
        }
        ((self.raw() as u64 * n as u64) >> 32) as usize
    }
    pub fn int(&mut self, lo: i64, hi_incl: i64) -> i64 {
        lo + self.index((hi_incl - lo + 1) as usize) as i64
    }
    /// true with probability p; gene 0 => false
    pub fn bool(&mut self, p: f64) -> bool {
        self.unit() >= 1.0 - p
    }
    pub fn pick<T: Clone>(&mut self, items: &[T]) -> T {
        items[self.index(items.len())].clone()
    }
    /// composition in the open simplex, each x_i >= xmin
    pub fn simplex(&mut self, n: usize, xmin: f64) -> Vec<f64> {
        if n == 1 {
            return vec![1.0];
        }
        let e: Vec<f64> = (0..n).map(|_| -(1.0 - self.unit()).ln() + 1e-9).collect();
        let s: f64 = e.iter().sum();
        let free = 1.0 - xmin * n as f64;
        e.iter().map(|v| xmin + free * v / s).collect()
    }
    /// a random permutation of 0..n (gene 0 => identity)
    pub fn permutation(&mut self, n: usize) -> Vec<usize> {
        let mut p: Vec<usize> = (0..n).collect();
        for i in 0..n.saturating_sub(1) {
            let j = i + self.index(n - i);
            p.swap(i, j);
        }
        p
    }
    pub fn remaining(&self) -> usize {
        self.data.len().saturating_sub(self.pos)
    }
}

// ---------------------------------------------------------------------------------------
// Obs: what one case observed.
// ---------------------------------------------------------------------------------------
#[derive(Default, Debug, Clone)]
pub struct Obs {
    pub classes: Vec<String>,
    pub nontrivial: bool,
    pub fails: Vec<String>,
    pub known: Vec<(String, String)>,
    pub discards: Vec<String>,
    pub inconclusive: Vec<String>,
    pub comparisons: u64,
    pub strict: bool,
}

impl Obs {
    pub fn class(&mut self, c: impl Into<String>) {
        let c = c.into();
        if !self.classes.contains(&c) {
            self.classes.push(c);
        }
    }
    pub fn nontrivial(&mut self) {
        self.nontrivial = true;
    }
    pub fn fail(&mut self, msg: impl Into<String>) {
        if self.fails.len() < 8 {
            self.fails.push(msg.into());
        }
    }
    /// A failure that matches the signature of a known finding: suppressed only if the
    /// finding `id` is listed as open in known_findings.json, otherwise a failure.
    pub fn known_or_fail(&mut self, id: &str, msg: impl Into<String>) {
        let msg = msg.into();
        if known_open(id) {
            self.known.push((id.to_string(), msg));
        } else {
            self.fail(format!("[{id}] {msg}"));
        }
    }
    pub fn discard(&mut self, reason: impl Into<String>) {
        self.discards.push(reason.into());
    }
    pub fn inconclusive(&mut self, reason: impl Into<String>) {
        self.inconclusive.push(reason.into());
    }
    pub fn count(&mut self) {
        self.comparisons += 1;
    }
    /// |u-v| <= atol + rtol*max(|u|,|v|); NaN on either side fails.
    pub fn close(&mut self, what: &str, u: f64, v: f64, rtol: f64, atol: f64) -> bool {
        self.comparisons += 1;
        let ok = (u - v).abs() <= atol + rtol * u.abs().max(v.abs());
        if !ok || u.is_nan() || v.is_nan() {
            self.fail(format!(
                "{what}: {u:e} vs {v:e} (diff {:e}, rtol {rtol:e}, atol {atol:e})",
                (u - v).abs()
            ));
            return false;
        }
        true
    }
    /// comparison relative to an explicit scale
    pub fn close_scaled(&mut self, what: &str, u: f64, v: f64, tol: f64, scale: f64) -> bool {
        self.comparisons += 1;
        let ok = (u - v).abs() <= tol * scale;
        if !ok || u.is_nan() || v.is_nan() {
            self.fail(format!(
                "{what}: {u:e} vs {v:e} (diff {:e} > {tol:e} * scale {scale:e})",
                (u - v).abs()
            ));
            return false;
        }
        true
    }
    pub fn ensure(&mut self, cond: bool, msg: impl FnOnce() -> String) -> bool {
        self.comparisons += 1;
        if !cond {
            self.fail(msg());
        }
        cond
    }
}

// ---------------------------------------------------------------------------------------
// Known findings
// ---------------------------------------------------------------------------------------
#[derive(Debug, Clone, serde::Deserialize)]
pub struct KnownFinding {
    pub property: String,
    pub id: String,
    pub status: String, // "open" | "fixed"
    pub what: String,
    #[serde(default)]
    pub signature: String,
    #[serde(default)]
    pub commit: Option<String>,
    #[serde(default)]
    pub replay: Option<String>,
}

static KNOWN: std::sync::OnceLock<Vec<KnownFinding>> = std::sync::OnceLock::new();

pub fn known_findings() -> &'static Vec<KnownFinding> {
    KNOWN.get_or_init(|| {
        let p = verif_root().join("known_findings.json");
        match std::fs::read_to_string(&p) {
            Ok(s) => {
                let v: Value = serde_json::from_str(&s).expect("known_findings.json parses");
                serde_json::from_value(v["findings"].clone()).expect("known_findings.json schema")
            }
            Err(_) => vec![],
        }
    })
}

pub fn known_open(id: &str) -> bool {
    known_findings()
        .iter()
        .any(|k| k.id == id && k.status == "open")
}

// ---------------------------------------------------------------------------------------
// Ctx: one run of one property.
// ---------------------------------------------------------------------------------------
#[derive(Clone, Copy, PartialEq, Eq, Debug)]
pub enum Tier {
    Quick,
    Thorough,
}

#[derive(Default)]
struct Stats {
    evaluations: u64,
    comparisons: u64,
    nontrivial_hashes: HashSet<u64>,
    classes: BTreeMap<String, u64>,
    discards: BTreeMap<String, u64>,
    inconclusive: BTreeMap<String, u64>,
    known_hits: BTreeMap<String, (u64, String)>,
    panics: BTreeMap<String, u64>,
    samples: Vec<Value>,
    sample_classes: HashSet<String>,
    parts: BTreeMap<String, Value>,
    violations: Vec<(String, String)>, // (replay path, message)
    exhaustive_parts: Vec<String>,
}

pub struct Ctx {
    pub property: String,
    pub tier: Tier,
    pub seed: u64,
    pub threads: usize,
    stats: Mutex<Stats>,
    start: Instant,
    pub rule: Mutex<String>,
    pub assumptions: Mutex<Vec<String>>,
    pub extra: Mutex<BTreeMap<String, Value>>,
}

fn hash_str(s: &str) -> u64 {
    let mut h = DefaultHasher::new();
    s.hash(&mut h);
    h.finish()
}

/// Round floats in a JSON value to 12 significant digits so that hashes are canonical.
fn canonical(v: &Value) -> Value {
    match v {
        Value::Number(n) => {
            if let Some(f) = n.as_f64() {
                if n.is_f64() {
                    let s = format!("{:.11e}", f);
                    return Value::String(s);
                }
            }
            v.clone()
        }
        Value::Array(a) => Value::Array(a.iter().map(canonical).collect()),
        Value::Object(o) => Value::Object(o.iter().map(|(k, v)| (k.clone(), canonical(v))).collect()),
        _ => v.clone(),
    }
}

fn panic_message(e: Box<dyn std::any::Any + Send>) -> String {
    if let Some(s) = e.downcast_ref::<&str>() {
        s.to_string()
    } else if let Some(s) = e.downcast_ref::<String>() {
        s.clone()
    } else {
        "panic".into()
    }
}

/// How panics inside a case are treated.
#[derive(Clone, Copy, PartialEq, Eq)]
pub enum PanicPolicy {
    /// counted in evidence, not a violation (property speaks only about returned values)
    Count,
    /// a panic is a violation (property demands success or clean rejection)
    Violation,
}

pub struct PartCfg {
    pub name: &'static str,
    pub genome_len: usize,
    pub cases_quick: u32,
    pub cases_thorough: u32,
    pub panic: PanicPolicy,
}

impl Ctx {
    pub fn new(property: &str, tier: Tier, seed: u64) -> Self {
        let threads = std::env::var("VERIF_THREADS")
            .ok()
            .and_then(|s| s.parse().ok())
            .unwrap_or(16);
        Self {
            property: property.to_string(),
            tier,
            seed,
            threads,
            stats: Mutex::new(Stats::default()),
            start: Instant::now(),
            rule: Mutex::new(String::new()),
            assumptions: Mutex::new(vec![]),
            extra: Mutex::new(BTreeMap::new()),
        }
    }

    /// Remove replay files of earlier runs of this property (called at the start of a run).
    pub fn clear_old_replays(&self) {
        if let Ok(rd) = std::fs::read_dir(verif_root().join("replays")) {
            for e in rd.flatten() {
                let name = e.file_name().to_string_lossy().to_string();
                if name.starts_with(&format!("{}-", self.property)) && name.ends_with(".json") {
                    let _ = std::fs::remove_file(e.path());
                }
            }
        }
    }

    pub fn set_rule(&self, r: &str) {
        *self.rule.lock().unwrap() = r.to_string();
    }
    pub fn assume(&self, a: &str) {
        self.assumptions.lock().unwrap().push(a.to_string());
    }
    pub fn extra(&self, k: &str, v: Value) {
        self.extra.lock().unwrap().insert(k.to_string(), v);
    }
    pub fn pick<T>(&self, quick: T, thorough: T) -> T {
        match self.tier {
            Tier::Quick => quick,
            Tier::Thorough => thorough,
        }
    }

    fn record<C: Serialize>(&self, part: &str, case: &C, obs: &Obs, panic: Option<&str>) {
        // serialise and hash outside the lock (lattices run hundreds of thousands of cheap cases)
        let pre = if obs.nontrivial {
            let v = serde_json::to_value(case).unwrap_or(Value::Null);
            let h = hash_str(&format!("{part}:{}", canonical(&v)));
            Some((v, h))
        } else {
            None
        };
        let mut st = self.stats.lock().unwrap();
        st.evaluations += 1;
        st.comparisons += obs.comparisons;
        for c in &obs.classes {
            *st.classes.entry(format!("{part}/{c}")).or_default() += 1;
        }
        for d in &obs.discards {
            *st.discards.entry(format!("{part}/{d}")).or_default() += 1;
        }
        for d in &obs.inconclusive {
            *st.inconclusive.entry(format!("{part}/{d}")).or_default() += 1;
        }
        for (id, msg) in &obs.known {
            let e = st.known_hits.entry(id.clone()).or_insert((0, msg.clone()));
            e.0 += 1;
        }
        if let Some(p) = panic {
            let key: String = p.chars().take(120).collect();
            *st.panics.entry(format!("{part}/{key}")).or_default() += 1;
        }
        if let Some((v, h)) = pre {
            let new = st.nontrivial_hashes.insert(h);
            if new {
                // sample: first 3 per part, plus first of each new class (cap 16)
                let n_part = st
                    .samples
                    .iter()
                    .filter(|s| s["part"].as_str() == Some(part))
                    .count();
                let mut take = n_part < 3;
                for c in &obs.classes {
                    let key = format!("{part}/{c}");
                    if !st.sample_classes.contains(&key) {
                        if st.samples.len() < 16 {
                            take = true;
                        }
                        st.sample_classes.insert(key);
                    }
                }
                if take && st.samples.len() < 24 {
                    st.samples.push(json!({"part": part, "case": v, "classes": obs.classes}));
                }
            }
        }
    }

    fn write_replay<C: Serialize>(&self, part: &str, genome: Option<&[u32]>, case: &C, msg: &str) -> String {
        let v = json!({
            "property": self.property,
            "part": part,
            "genome": genome,
            "case": serde_json::to_value(case).unwrap_or(Value::Null),
            "message": msg,
            "seed": self.seed,
        });
        let h = hash_str(&format!("{}", canonical(&v["case"])));
        let dir = verif_root().join("replays");
        let _ = std::fs::create_dir_all(&dir);
        let path = dir.join(format!("{}-{}-{:016x}.json", self.property, part, h));
        let _ = std::fs::write(&path, serde_json::to_string_pretty(&v).unwrap());
        path.to_string_lossy().to_string()
    }

    fn add_violation(&self, path: String, msg: String) {
        let mut st = self.stats.lock().unwrap();
        if !st.violations.iter().any(|(p, _)| *p == path) {
            st.violations.push((path, msg));
        }
    }

    /// Run one case under the panic policy. Returns Err(message) iff the case is a failure.
    fn exec<C>(
        &self,
        cfg_panic: PanicPolicy,
        case: &C,
        check: &(dyn Fn(&C, &mut Obs) + Sync),
    ) -> (Obs, Option<String>, Option<String>) {
        let mut obs = Obs::default();
        let r = catch_unwind(AssertUnwindSafe(|| check(case, &mut obs)));
        let mut panic = None;
        if let Err(e) = r {
            let m = panic_message(e);
            if cfg_panic == PanicPolicy::Violation {
                obs.fail(format!("PANIC: {m}"));
            }
            panic = Some(m);
        }
        let fail = if obs.fails.is_empty() {
            None
        } else {
            Some(obs.fails.join(" | "))
        };
        (obs, fail, panic)
    }

    /// Sampled part: seeded proptest over genomes, sharded over threads; the first failure
    /// of each shard is shrunk by proptest and written as a replay file.
    pub fn run_sampled<C>(
        &self,
        cfg: &PartCfg,
        decode: &(dyn Fn(&mut Gen) -> C + Sync),
        check: &(dyn Fn(&C, &mut Obs) + Sync),
    ) where
        C: Serialize + DeserializeOwned + Clone + Send + Sync + std::fmt::Debug,
    {
        let t0 = Instant::now();
        let total = self.pick(cfg.cases_quick, cfg.cases_thorough);
        if total == 0 {
            return;
        }
        let shards = (self.threads as u32).min(total.max(1));
        let per = total.div_ceil(shards);
        let part_seed = hash_str(&format!("{}:{}:{}", self.property, cfg.name, self.seed));
        std::thread::scope(|scope| {
            for shard in 0..shards {
                let ctx = &*self;
                scope.spawn(move || {
                    let mut seed_bytes = [0u8; 32];
                    let s = part_seed ^ (shard as u64).wrapping_mul(0x9E3779B97F4A7C15);
                    for (i, b) in seed_bytes.iter_mut().enumerate() {
                        *b = (s.rotate_left((i as u32 * 7) % 64) >> ((i % 8) * 8)) as u8 ^ (i as u8);
                    }
                    let config = Config {
                        cases: per,
                        failure_persistence: None,
                        max_shrink_iters: 400,
                        // wall-clock bound on shrinking only (affects the minimality of a replay, never a verdict)
                        max_shrink_time: 60_000,
                        rng_seed: RngSeed::Fixed(s),
                        verbose: 0,
                        ..Config::default()
                    };
                    let _ = seed_bytes;
                    let mut runner = TestRunner::new(config);
                    let failed = AtomicBool::new(false);
                    let strat = proptest::collection::vec(proptest::num::u32::ANY, cfg.genome_len);
                    let res = runner.run(&strat, |genome| {
                        let case = decode(&mut Gen::new(&genome));
                        let (obs, fail, panic) = ctx.exec(cfg.panic, &case, check);
                        if !failed.load(Ordering::Relaxed) {
                            ctx.record(cfg.name, &case, &obs, panic.as_deref());
                        }
                        match fail {
                            Some(m) => {
                                failed.store(true, Ordering::Relaxed);
                                Err(TestCaseError::fail(m))
                            }
                            None => Ok(()),
                        }
                    });
                    match res {
                        Ok(()) => {}
                        Err(TestError::Fail(reason, genome)) => {
                            let case = decode(&mut Gen::new(&genome));
                            let path =
                                ctx.write_replay(cfg.name, Some(&genome), &case, &reason.to_string());
                            ctx.add_violation(path, reason.to_string());
                        }
                        Err(TestError::Abort(reason)) => {
                            eprintln!("proptest aborted in part {}: {reason}", cfg.name);
                            let mut st = ctx.stats.lock().unwrap();
                            *st.discards.entry(format!("{}/proptest-abort", cfg.name)).or_default() += 1;
                        }
                    }
                });
            }
        });
        let mut st = self.stats.lock().unwrap();
        st.parts.insert(
            cfg.name.to_string(),
            json!({"kind": "sampled", "cases": per * shards, "shards": shards, "genome_len": cfg.genome_len, "wall_s": t0.elapsed().as_secs_f64()}),
        );
    }

    /// Lattice part: deterministic, seed-independent enumeration, run in parallel.
    pub fn run_lattice<C>(
        &self,
        name: &'static str,
        items: Vec<C>,
        panic: PanicPolicy,
        exhaustive: bool,
        check: &(dyn Fn(&C, &mut Obs) + Sync),
    ) where
        C: Serialize + Clone + Send + Sync,
    {
        let t0 = Instant::now();
        let n = items.len();
        let nfail = Mutex::new(0usize);
        let pool = rayon::ThreadPoolBuilder::new()
            .num_threads(self.threads)
            .build()
            .unwrap();
        pool.install(|| {
            items.par_iter().for_each(|case| {
                let (obs, fail, p) = self.exec(panic, case, check);
                self.record(name, case, &obs, p.as_deref());
                if let Some(m) = fail {
                    let mut k = nfail.lock().unwrap();
                    *k += 1;
                    if *k <= 10 {
                        let path = self.write_replay(name, None, case, &m);
                        self.add_violation(path, m);
                    }
                }
            })
        });
        let mut st = self.stats.lock().unwrap();
        if exhaustive {
            st.exhaustive_parts.push(name.to_string());
        }
        st.parts.insert(
            name.to_string(),
            json!({"kind": "lattice", "cases": n, "failures": *nfail.lock().unwrap(), "exhaustive": exhaustive, "wall_s": t0.elapsed().as_secs_f64()}),
        );
    }

    /// Replay one stored case through the same check function (bypasses proptest).
    pub fn replay_case<C>(&self, case_json: &Value, check: &(dyn Fn(&C, &mut Obs) + Sync)) -> bool
    where
        C: DeserializeOwned,
    {
        let case: C = match serde_json::from_value(case_json.clone()) {
            Ok(c) => c,
            Err(e) => {
                eprintln!("cannot decode replay case: {e}");
                std::process::exit(2);
            }
        };
        let (obs, fail, panic) = self.exec(PanicPolicy::Violation, &case, check);
        println!("classes: {:?}", obs.classes);
        println!("nontrivial: {}  comparisons: {}", obs.nontrivial, obs.comparisons);
        for d in &obs.discards {
            println!("discard: {d}");
        }
        for d in &obs.inconclusive {
            println!("inconclusive: {d}");
        }
        for (id, m) in &obs.known {
            println!("known finding {id}: {m}");
        }
        if let Some(p) = panic {
            println!("panic: {p}");
        }
        match fail {
            Some(m) => {
                println!("FAIL: {m}");
                false
            }
            None => {
                println!("PASS");
                true
            }
        }
    }

    pub fn n_violations(&self) -> usize {
        self.stats.lock().unwrap().violations.len()
    }

    /// Write evidence, print KNOWN-FINDING / VIOLATION lines, return exit code.
    pub fn finish(&self) -> i32 {
        let st = self.stats.lock().unwrap();
        let wall = self.start.elapsed().as_secs_f64();
        let known: Vec<Value> = st
            .known_hits
            .iter()
            .map(|(id, (n, msg))| json!({"id": id, "hits": n, "example": msg}))
            .collect();
        let mut coverage = json!({
            "evaluations": st.evaluations,
            "comparisons": st.comparisons,
            "distinct_nontrivial": st.nontrivial_hashes.len(),
            "rule": *self.rule.lock().unwrap(),
            "samples": st.samples,
            "class_histogram": st.classes,
            "discarded": st.discards,
            "inconclusive": st.inconclusive,
            "panics_counted": st.panics,
            "known_findings_hit": known,
            "parts": st.parts,
            "exhaustive": !st.exhaustive_parts.is_empty() && st.parts.len() == st.exhaustive_parts.len(),
            "exhaustive_parts": st.exhaustive_parts,
        });
        for (k, v) in self.extra.lock().unwrap().iter() {
            coverage[k] = v.clone();
        }
        let ev = json!({
            "property_id": self.property,
            "tier": match self.tier { Tier::Quick => "quick", Tier::Thorough => "thorough" },
            "seed": self.seed,
            "level": "exploration",
            "coverage": coverage,
            "assumptions": *self.assumptions.lock().unwrap(),
            "wall_s": wall,
            "violations": st.violations.len(),
            "violation_list": st.violations.iter().map(|(p, m)| json!({"replay": p, "message": m})).collect::<Vec<_>>(),
        });
        let dir = verif_root().join("evidence");
        let _ = std::fs::create_dir_all(&dir);
        let path = dir.join(format!("{}.json", self.property));
        std::fs::write(&path, serde_json::to_string_pretty(&ev).unwrap()).expect("write evidence");
        println!(
            "{} {:?} seed={} evaluations={} comparisons={} distinct_nontrivial={} discards={} inconclusive={} panics={} wall={:.1}s",
            self.property,
            self.tier,
            self.seed,
            st.evaluations,
            st.comparisons,
            st.nontrivial_hashes.len(),
            st.discards.values().sum::<u64>(),
            st.inconclusive.values().sum::<u64>(),
            st.panics.values().sum::<u64>(),
            wall
        );
        // known findings: one line per listed open finding of this property that was hit
        for k in known_findings() {
            if k.property == self.property && k.status == "open" {
                let hits = st.known_hits.get(&k.id).map(|h| h.0).unwrap_or(0);
                println!(
                    "KNOWN-FINDING: property={} {} [{}; hits this run: {}]",
                    self.property, k.what, k.id, hits
                );
            }
        }
        for (p, m) in st.violations.iter().take(10) {
            println!("VIOLATION property={} replay={}", self.property, p);
            println!("  reason: {}", m.chars().take(600).collect::<String>());
        }
        if st.violations.is_empty() {
            0
        } else {
            1
        }
    }
}

/// Install a quiet panic hook (panics inside cases are caught and counted).
pub fn quiet_panics() {
    std::panic::set_hook(Box::new(|_| {}));
}

pub struct _Unused<S: Strategy>(S);
