use feos::core::*;
use feos_verif::model::*;
fn main() {
    let f = std::env::args().nth(1).unwrap();
    let v: serde_json::Value = serde_json::from_str(&std::fs::read_to_string(f).unwrap()).unwrap();
    let mut spec: ModelSpec = serde_json::from_value(v["case"]["spec"].clone()).unwrap();
    let st: StateSpec = serde_json::from_value(v["case"]["state"].clone()).unwrap();
    println!("{:?} {}", spec.family, serde_json::to_string(&spec.pure).unwrap());
    for fam in [Family::EPcSaft, Family::PcSaft] {
        spec.family = fam;
        let mut sp = spec.clone();
        if fam == Family::EPcSaft { for b in sp.binary.iter_mut() { if let Some(k) = b.2["k_ij"].as_f64() { b.2["k_ij"] = serde_json::json!([k, 0.0, 0.0, 0.0]); } } }
        let model = sp.build().unwrap();
        let mut s2 = spec.clone(); s2.family = Family::PcSaft;
        let m2 = s2.build().unwrap();
        let inputs = state_inputs(&s2, &m2, &st).unwrap();
        let s = State::new_nvt(&model, inputs.0, inputs.1, &inputs.2).unwrap();
        for (n, a) in s.residual_helmholtz_energy_contributions() { println!("{fam:?} {n}: {:e}", a.to_reduced()); }
        for (n, a) in s.pressure_contributions() { println!("{fam:?} p {n}: {:e}", a.to_reduced()); }
    }
}
