// builds the replay file of finding C11/association-nonconvergence-flips-with-route from a C09 subset case
use feos_verif::model::*;
use feos_verif::props::c11::Case;
fn main() {
    let f = std::env::args().nth(1).unwrap();
    let v: serde_json::Value = serde_json::from_str(&std::fs::read_to_string(f).unwrap()).unwrap();
    let spec: ModelSpec = serde_json::from_value(v["case"]["spec"].clone()).unwrap();
    let st: StateSpec = serde_json::from_value(v["case"]["state"].clone()).unwrap();
    let idx = vec![0usize, 2, 1, 3];
    let ds = spec.subset(&idx);
    let mut s2 = st.clone();
    let x: Vec<f64> = idx.iter().map(|&i| st.x[i]).collect();
    let sum: f64 = x.iter().sum();
    s2.x = x.iter().map(|v| v / sum).collect();
    let case = Case { spec: ds, state: s2, ig: vec![1, 2, 3, 4], ops: vec![], threads: 0 };
    println!("{}", serde_json::to_string_pretty(&serde_json::json!({"property":"C11","part":"history","case":case})).unwrap());
}
