use feos::core::*;
use feos_verif::model::*;
use feos_verif::props::c01::Case;
use quantity::*;
fn main() {
    let f = std::env::args().nth(1).unwrap();
    let v: serde_json::Value = serde_json::from_str(&std::fs::read_to_string(f).unwrap()).unwrap();
    let case: Case = serde_json::from_value(v["case"].clone()).unwrap();
    let model = case.spec.build().unwrap();
    let inp = state_inputs(&case.spec, &model, &case.state).unwrap();
    let s = State::new_nvt(&model, inp.0, inp.1, &inp.2).unwrap();
    println!("T={} rho={} dp_dt(res)={:e}", s.temperature, s.density, s.dp_dt(Contributions::Residual).to_reduced());
    let t0 = inp.0.to_reduced();
    let p = |t: f64| State::new_nvt(&model, t * KELVIN, inp.1, &inp.2).unwrap().pressure(Contributions::Residual).to_reduced();
    for h in [2e-2, 5e-3, 1e-3, 1e-4, 1e-5, 1e-6, 1e-7] {
        println!("h_rel={h:e} central diff = {:e}", (p(t0 * (1.0 + h)) - p(t0 * (1.0 - h))) / (2.0 * h * t0));
    }
    for k in -10..=10 {
        let t = t0 * (1.0 + k as f64 * 2e-3);
        let st = State::new_nvt(&model, t * KELVIN, inp.1, &inp.2).unwrap();
        let c: Vec<String> = st.residual_helmholtz_energy_contributions().iter().map(|(n, a)| format!("{}:{:.6e}", &n[..4.min(n.len())], a.to_reduced())).collect();
        println!("T={t:.4} p={:e} dpdt={:e} {:?}", st.pressure(Contributions::Residual).to_reduced(), st.dp_dt(Contributions::Residual).to_reduced(), c);
    }
}
