use feos::core::*;
use feos::core::parameter::*;
use feos::pcsaft::*;
use quantity::*;
use std::sync::Arc;
fn main() {
    let p = PcSaftParameters::from_json(vec!["hydroxy acetonitrile"], "/repo/parameters/pcsaft/esper2023.json", None, IdentifierOption::Name).unwrap();
    println!("{}", serde_json::to_string(&p.pure_records[0].model_record).unwrap());
    let eos = Arc::new(PcSaft::new(Arc::new(p)));
    let cp = State::critical_point(&eos, None, None, Default::default()).unwrap();
    println!("Tc = {}", cp.temperature);
    for tau in [0.45, 0.5, 0.55] {
        let t = cp.temperature * tau;
        let r = PhaseEquilibrium::pure(&eos, t, None, SolverOptions::default().verbosity(Verbosity::Iter));
        match r { Ok(v) => println!("ok p={} rhov={} rhol={}", v.vapor().pressure(Contributions::Total), v.vapor().density, v.liquid().density), Err(e) => println!("ERR {e}") }
    }
}
