use feos::core::*;
use feos_verif::model::*;
use ndarray::arr1;
use quantity::*;
fn main() {
    let f = std::env::args().nth(1).unwrap();
    let v: serde_json::Value = serde_json::from_str(&std::fs::read_to_string(f).unwrap()).unwrap();
    let spec: ModelSpec = serde_json::from_value(v["case"]["mix"]["spec"].clone()).unwrap();
    let model = spec.build().unwrap();
    let t = 529.4583377653665 * KELVIN;
    let x = arr1(&[0.04639318036947722, 0.9536068196305227]);
    let bub = PhaseEquilibrium::bubble_point(&model, t, &x, None, None, Default::default()).unwrap();
    let dew = PhaseEquilibrium::dew_point(&model, t, &x, None, None, Default::default()).unwrap();
    println!("bubble: p={} y={} rho_l={} rho_v={}", bub.vapor().pressure(Contributions::Total), bub.vapor().molefracs, bub.liquid().density, bub.vapor().density);
    println!("dew: p={} x={} rho_l={} rho_v={}", dew.vapor().pressure(Contributions::Total), dew.liquid().molefracs, dew.liquid().density, dew.vapor().density);
    let (pb, pd) = (bub.vapor().pressure(Contributions::Total), dew.vapor().pressure(Contributions::Total));
    for u in [0.0, 0.2, 0.4665965735912323, 0.7, 1.0] {
        let p = 1.02 * pd + u * (0.98 * pb - 1.02 * pd);
        let m = Moles::from_reduced(x.clone());
        for init in [DensityInitialization::Vapor, DensityInitialization::Liquid] {
            let Ok(s) = State::new_npt(&model, t, p, &m, init) else { println!("u={u} no state"); continue };
            let sa = s.stability_analysis(Default::default());
            let fl = PhaseEquilibrium::tp_flash(&model, t, p, &m, None, Default::default(), None);
            println!("u={u} p={p} rho={} stab={:?} flash={}", s.density, sa.as_ref().map(|v| v.len()).map_err(|e| e.to_string()), match &fl { Ok(f) => format!("x={} y={}", f.liquid().molefracs, f.vapor().molefracs), Err(e) => e.to_string() });
            // tpd of the dew liquid composition as trial at p
            let w = dew.liquid().molefracs.clone();
            if let Ok(tr) = State::new_npt(&model, t, p, &Moles::from_reduced(w.clone()), DensityInitialization::Liquid) {
                let lf = s.ln_phi(); let lt = tr.ln_phi();
                let tpd: f64 = (0..2).map(|i| w[i] * (w[i].ln() + lt[i] - x[i].ln() - lf[i])).sum();
                println!("    tpd of dew-liquid composition trial: {tpd:e}");
            }
        }
    }
}
