use feos::core::*;
use feos_verif::model::*;
use ndarray::Array1;
use quantity::*;
fn main() {
    let f = std::env::args().nth(1).unwrap();
    let v: serde_json::Value = serde_json::from_str(&std::fs::read_to_string(f).unwrap()).unwrap();
    let spec: ModelSpec = serde_json::from_value(v["case"]["spec"].clone()).unwrap();
    let x: Vec<f64> = serde_json::from_value(v["case"]["x"].clone()).unwrap();
    let tau = v["case"]["tau"].as_f64().unwrap();
    let f_rho = v["case"]["f_rho"].as_f64().unwrap();
    let model = spec.build().unwrap();
    let mut tcs = vec![];
    for i in 0..spec.n() {
        let m = spec.subset(&[i]).build().unwrap();
        let cp = State::critical_point(&m, None, None, Default::default()).unwrap();
        println!("comp {i}: Tc={} pc={}", cp.temperature, cp.pressure(Contributions::Total));
        tcs.push(cp.temperature.to_reduced());
    }
    let t = tau * tcs.iter().cloned().fold(0.0, f64::max) * KELVIN;
    let moles = Moles::from_reduced(Array1::from_vec(x));
    let rho_max = model.max_density(Some(&moles)).unwrap().to_reduced();
    let rho0 = f_rho * rho_max;
    let tg = State::new_nvt(&model, t, moles.sum() / Density::from_reduced(rho0), &moles).unwrap();
    let p = tg.pressure(Contributions::Total);
    println!("T={t} rho_max={rho_max:e} rho0={rho0:e} p={:e}", p.to_reduced());
    for k in 0..=40 {
        let rho = rho_max * (k as f64 / 40.0).max(1e-4);
        let s = State::new_nvt(&model, t, moles.sum() / Density::from_reduced(rho), &moles).unwrap();
        println!("  rho={rho:e} p-p0={:e} dpdrho={:e}", (s.pressure(Contributions::Total) - p).to_reduced(), s.dp_drho(Contributions::Total).to_reduced());
    }
    for init in [DensityInitialization::None, DensityInitialization::Vapor, DensityInitialization::Liquid] {
        let r = State::new_npt(&model, t, p, &moles, init);
        println!("{:?}", r.map(|s| (s.density.to_reduced(), (s.pressure(Contributions::Total) - p).to_reduced())).map_err(|e| e.to_string()));
    }
}
