use feos::core::*;
use feos_verif::model::*;
use feos_verif::props::c02::Case;
use num_dual::*;
use quantity::*;
fn main() {
    let f = std::env::args().nth(1).unwrap();
    let v: serde_json::Value = serde_json::from_str(&std::fs::read_to_string(f).unwrap()).unwrap();
    let case: Case = serde_json::from_value(v["case"].clone()).unwrap();
    let model = case.spec.build().unwrap();
    let inputs = state_inputs(&case.spec, &model, &case.state).unwrap();
    for l in [1.0, case.lambda2] {
        let s = State::new_nvt(&model, inputs.0, inputs.1 * l, &(&inputs.2 * l)).unwrap();
        println!("T={} rho={} ", s.temperature, s.density);
        let hd = s.derive2(Derivative::DT);
        for (n, a) in model.residual_helmholtz_energy_contributions(&hd) {
            println!("  l={l} {n}: re={:e} v1={:e} v2={:e}", a.re / l, a.v1 / l, a.v2 / l);
        }
        let hd = s.derive2(Derivative::DV);
        for (n, a) in model.residual_helmholtz_energy_contributions(&hd) {
            println!("  DV l={l} {n}: re={:e} v1={:e} v2={:e}", a.re / l, a.v1, a.v2 * l);
        }
    }
}
