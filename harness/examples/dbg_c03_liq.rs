use feos::core::*;
use feos_verif::props::c03::*;
use feos_verif::model::*;
use quantity::*;
use ndarray::*;
fn main() {
    let f = std::env::args().nth(1).unwrap();
    let v: serde_json::Value = serde_json::from_str(&std::fs::read_to_string(f).unwrap()).unwrap();
    let case: TpCase = serde_json::from_value(v["case"].clone()).unwrap();
    let (t, p, rho_max) = tp_conditions(&case).unwrap();
    println!("T={t} p={p} rho_max={rho_max}");
    let model = case.spec.build().unwrap();
    let moles = Array1::from_vec(case.x.iter().map(|xi| xi * case.lambda).collect()) * MOL;
    let n = moles.sum();
    let tq = Temperature::from_reduced(t);
    for k in 0..=40 {
        let rho = rho_max * (k as f64 + 0.5) / 40.0;
        let s = State::new_nvt(&model, tq, n / Density::from_reduced(rho), &moles).unwrap();
        println!("rho/rmax={:.4} p={:e} dpdrho={:e}", rho / rho_max, s.pressure(Contributions::Total).to_reduced(), s.dp_drho(Contributions::Total).to_reduced());
    }
    for (nm, init) in [("L", DensityInitialization::Liquid), ("V", DensityInitialization::Vapor), ("N", DensityInitialization::None)] {
        let r = State::new_npt(&model, tq, Pressure::from_reduced(p), &moles, init);
        match r { Ok(s) => println!("{} -> rho={:e} ({:.4} rmax) p={:e}", nm, s.density.to_reduced(), s.density.to_reduced()/rho_max, s.pressure(Contributions::Total).to_reduced()), Err(e) => println!("{} -> {e}", nm) }
    }
}
