use feos::core::*;
use feos_verif::model::*;
use num_dual::*;
fn main() {
    let f = std::env::args().nth(1).unwrap();
    let v: serde_json::Value = serde_json::from_str(&std::fs::read_to_string(f).unwrap()).unwrap();
    let spec: ModelSpec = serde_json::from_value(v["case"]["spec"].clone()).unwrap();
    let st: StateSpec = serde_json::from_value(v["case"]["state"].clone()).unwrap();
    let model = spec.build().unwrap();
    let inputs = state_inputs(&spec, &model, &st).unwrap();
    let s = State::new_nvt(&model, inputs.0, inputs.1, &inputs.2).unwrap();
    let a0 = model.residual_helmholtz_energy_contributions(&s.derive0());
    let a1 = model.residual_helmholtz_energy_contributions(&s.derive1(Derivative::DV));
    let a2 = model.residual_helmholtz_energy_contributions(&s.derive2_mixed(Derivative::DV, Derivative::DT));
    let a3 = model.residual_helmholtz_energy_contributions(&s.derive3(Derivative::DV));
    let b1 = model.residual_helmholtz_energy_contributions(&s.derive1(Derivative::DT));
    let b2 = model.residual_helmholtz_energy_contributions(&s.derive2(Derivative::DV));
    let b3 = model.residual_helmholtz_energy_contributions(&s.derive2(Derivative::DT));
    for k in 0..a0.len() {
        println!("   d64(DT) rel {:e}  d2(DV) rel {:e} d2(DT) rel {:e}", (b1[k].1.re-a0[k].1)/a0[k].1, (b2[k].1.re-a0[k].1)/a0[k].1, (b3[k].1.re-a0[k].1)/a0[k].1);
    }
    for k in 0..a0.len() {
        println!("{}: f64 {:e}  d64 {:e} (rel {:e})  hd {:e} (rel {:e}) d3 {:e} (rel {:e})", a0[k].0, a0[k].1, a1[k].1.re, (a1[k].1.re-a0[k].1)/a0[k].1, a2[k].1.re, (a2[k].1.re-a0[k].1)/a0[k].1, a3[k].1.re, (a3[k].1.re-a0[k].1)/a0[k].1);
    }
}
