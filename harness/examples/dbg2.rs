use feos::core::*;
use feos_verif::engine::Gen;
use feos_verif::model::*;
fn main() {
    // scan genomes until a non-finite A_res of the requested family appears
    let fam = std::env::args().nth(1).unwrap();
    let mut seed = 12345u64;
    let mut found = 0;
    for _ in 0..20000 {
        let genome: Vec<u32> = (0..100).map(|_| { seed = seed.wrapping_mul(6364136223846793005).wrapping_add(1442695040888963407); (seed >> 32) as u32 }).collect();
        let mut g = Gen::new(&genome);
        let spec = gen_model(&mut g, &GenCfg::all(3));
        if format!("{:?}", spec.family) != fam { continue; }
        let st = gen_state(&mut g, spec.n());
        let Ok(model) = spec.build() else { continue };
        let Ok(inputs) = state_inputs(&spec, &model, &st) else { continue };
        let Ok(s) = build_state(&model, &inputs) else { continue };
        let a = s.residual_helmholtz_energy();
        if !a.to_reduced().is_finite() {
            println!("{} {:?} T={} rho={} x={:?}", spec.source, spec.opts, s.temperature, s.density, s.molefracs);
            println!("  pure: {}", serde_json::to_string(&spec.pure).unwrap().chars().take(300).collect::<String>());
            for (n, a) in s.residual_helmholtz_energy_contributions() { println!("   {n}: {a}"); }
            found += 1;
            if found > 3 { break; }
        }
    }
}
