//! State::critical_point has to return the vapour-liquid critical point (or an error),
//! not a stationary point of the isotherms in the stretched liquid at negative pressure.
//! Reference: critical temperatures reported by Lafitte et al. (2013) for their model.
use feos::core::parameter::{Parameter, PureRecord};
use feos::core::{Contributions, PhaseDiagram, State};
use feos::saftvrmie::{SaftVRMie, SaftVRMieParameters, SaftVRMieRecord};
use quantity::*;
use std::sync::Arc;

const TC: [(&str, f64); 26] = [
    ("methane", 195.30),
    ("ethane", 311.38),
    ("propane", 376.20),
    ("n-butane", 432.68),
    ("pentane", 476.44),
    ("hexane", 515.29),
    ("heptane", 547.33),
    ("octane", 576.72),
    ("nonane", 602.20),
    ("decane", 626.37),
    ("dodecane", 668.75),
    ("pentadecane", 720.98),
    ("eicosane", 786.33),
    ("methanol", 547.73),
    ("ethanol", 554.41),
    ("1-propanol", 560.43),
    ("1-butanol", 583.97),
    ("tetrafluoromethane [r14]", 232.77),
    ("hexafluoroethane [r116]", 295.46),
    ("perfluoropropane [r218]", 347.88),
    ("perfluorobutane", 386.86),
    ("perfluoropentane", 421.36),
    ("fluorine", 146.20),
    ("carbon dioxide", 307.00),
    ("benzene", 568.33),
    ("toluene", 600.25),
];

fn models() -> Vec<(String, f64, Arc<SaftVRMie>)> {
    let s = std::fs::read_to_string("parameters/saftvrmie/lafitte2013.json").unwrap();
    let r: Vec<PureRecord<SaftVRMieRecord>> = serde_json::from_str(&s).unwrap();
    r.into_iter()
        .filter_map(|rec| {
            let name = rec.identifier.name.clone().unwrap();
            let tc = TC.iter().find(|(n, _)| *n == name)?.1;
            let p = SaftVRMieParameters::new_pure(rec).unwrap();
            Some((name, tc, Arc::new(SaftVRMie::new(Arc::new(p)))))
        })
        .collect()
}

fn describe(s: &State<SaftVRMie>) -> String {
    format!(
        "T = {:8.3} K, p = {:8.3} MPa",
        s.temperature.convert_into(KELVIN),
        s.pressure(Contributions::Total).convert_into(MEGA * PASCAL)
    )
}

fn is_critical_point(s: &State<SaftVRMie>, tc: f64) -> bool {
    s.pressure(Contributions::Total) > 0.0 * PASCAL
        && (s.temperature.convert_into(KELVIN) - tc).abs() < 0.005 * tc
}

#[test]
fn default_initial_temperatures() {
    let mut bad = 0;
    for (name, tc, eos) in models() {
        let cp = State::critical_point(&eos, None, None, Default::default());
        let ok = cp.as_ref().is_ok_and(|cp| is_critical_point(cp, tc));
        println!(
            "{name:26} Tc(lit) = {tc:7.2} K: {} {}",
            cp.as_ref().map_or_else(|e| format!("error {e}"), describe),
            if ok { "ok" } else { "WRONG" }
        );
        if !ok {
            bad += 1;
        }
    }
    println!("default initial temperatures: {bad} of {} records wrong", models().len());
    assert_eq!(bad, 0);
}

#[test]
fn initial_temperature_given() {
    // with an explicit initial temperature, the result is the critical point or an error
    let mut bad = 0;
    let mut errors = 0;
    for (name, tc, eos) in models() {
        for f in [0.4, 0.5, 0.6, 0.8, 1.0, 1.2] {
            let cp = State::critical_point(&eos, None, Some(f * tc * KELVIN), Default::default());
            let ok = cp.as_ref().map_or(true, |cp| is_critical_point(cp, tc));
            if !ok {
                println!(
                    "{name:26} Tc(lit) = {tc:7.2} K, T_init = {f} Tc: {} WRONG",
                    cp.as_ref().map_or_else(|e| format!("error {e}"), describe),
                );
                bad += 1;
            }
            if cp.is_err() {
                errors += 1;
            }
        }
    }
    println!(
        "explicit initial temperature: {bad} of {} calls return a wrong state ({errors} errors)",
        6 * models().len()
    );
    assert_eq!(bad, 0);
}

#[test]
fn phase_diagram_ends_in_critical_point() {
    let mut bad = 0;
    for (name, tc, eos) in models() {
        let dia = PhaseDiagram::pure(&eos, 0.6 * tc * KELVIN, 5, None, Default::default());
        let ok = dia
            .as_ref()
            .is_ok_and(|dia| is_critical_point(dia.states.last().unwrap().vapor(), tc));
        if !ok {
            println!(
                "{name:26} Tc(lit) = {tc:7.2} K: phase diagram ends in {} WRONG",
                dia.as_ref().map_or_else(
                    |e| format!("error {e}"),
                    |dia| describe(dia.states.last().unwrap().vapor())
                ),
            );
            bad += 1;
        }
    }
    println!("phase diagrams: {bad} of {} wrong", models().len());
    assert_eq!(bad, 0);
}
