//! ePC-SAFT Debye-Hueckel term at low ionic strength: the contribution to A and p must follow
//!   a = A/(N k T) = -kappa lambda_B sum_i x_i z_i^2 chi(kappa d_i),
//!   Z = p/(rho k T) = -kappa lambda_B / 2 sum_i x_i z_i^2 [1/(1 + kappa d_i) - 2 chi(kappa d_i)]
//! with chi(x) = [ln(1+x) - x + x^2/2] / x^3 = 1/3 - x/4 + x^2/5 - ... evaluated here independently.
use feos::epcsaft::{ElectrolytePcSaft, ElectrolytePcSaftParameters, ElectrolytePcSaftVariants};
use feos::hard_sphere::HardSphereProperties;
use feos_core::parameter::{IdentifierOption, Parameter};
use feos_core::{ReferenceSystem, StateBuilder, StateHD};
use ndarray::arr1;
use quantity::*;
use std::f64::consts::PI;
use std::sync::Arc;

/// reference chi, accurate to round-off for all x
fn chi_ref(x: f64) -> f64 {
    if x < 0.5 {
        // alternating series, summed from the smallest term
        (0..120)
            .rev()
            .map(|k| (-x).powi(k) / (k as f64 + 3.0))
            .sum()
    } else {
        (x.ln_1p() - x + 0.5 * x * x) / x.powi(3)
    }
}

/// (a_ion, z_ion) of the library and of the reference for the reduced density rho (1/A^3)
fn ionic(eos: &Arc<ElectrolytePcSaft>, t: f64, x: &[f64], rho: f64) -> [f64; 4] {
    let molefracs = arr1(x);
    let state = StateBuilder::new(eos)
        .temperature(t * KELVIN)
        .density(Density::from_reduced(rho))
        .molefracs(&molefracs)
        .build()
        .unwrap();
    let nkt = RGAS * state.temperature * state.total_moles;
    let a = state
        .residual_helmholtz_energy_contributions()
        .into_iter()
        .find(|(s, _)| s == "Ionic")
        .map(|(_, a)| (a / nkt).into_value())
        .unwrap();
    let z = state
        .pressure_contributions()
        .into_iter()
        .find(|(s, _)| s == "Ionic")
        .map(|(_, p)| (p / (state.density * RGAS * state.temperature)).into_value())
        .unwrap();

    let p = &eos.parameters;
    let d = p.hs_diameter(t);
    let lambda_b = p.bjerrum_length(
        &StateHD::new(t, 1.0 / rho, molefracs.clone()),
        ElectrolytePcSaftVariants::Advanced,
    );
    let kappa = (4.0 * PI * lambda_b * rho * (&molefracs * &p.z * &p.z).sum()).sqrt();
    let (mut a_ref, mut z_ref) = (0.0, 0.0);
    for i in 0..x.len() {
        let xz2 = x[i] * p.z[i].powi(2);
        let kd = kappa * d[i];
        a_ref -= kappa * lambda_b * xz2 * chi_ref(kd);
        z_ref -= 0.5 * kappa * lambda_b * xz2 * (1.0 / (1.0 + kd) - 2.0 * chi_ref(kd));
    }
    [a, a_ref, z, z_ref]
}

#[test]
fn debye_hueckel_term_down_to_infinite_dilution() {
    let params = ElectrolytePcSaftParameters::from_json(
        vec!["water", "sodium ion", "chloride ion"],
        "parameters/epcsaft/held2014_w_permittivity_added.json",
        Some("parameters/epcsaft/held2014_binary.json"),
        IdentifierOption::Name,
    )
    .unwrap();
    let eos = Arc::new(ElectrolytePcSaft::new(Arc::new(params)));
    let t = 298.15;
    let x = [0.9, 0.05, 0.05];

    for rho in [1.8e-13, 1e-10, 1e-8, 1e-6, 2.6e-5, 1e-3, 3.3e-2] {
        let [a, a_ref, z, z_ref] = ionic(&eos, t, &x, rho);
        println!("rho = {rho:8.1e}: a_ion = {a:+.15e} (ref {a_ref:+.15e}), Z_ion = {z:+.15e} (ref {z_ref:+.15e})");
    }

    // dense scan over 14 decades (includes every point at which the implementation may switch
    // between a series and the closed form)
    let n = 2800;
    let (mut err_a, mut err_z) = ((0.0f64, 0.0), (0.0f64, 0.0));
    for k in 0..=n {
        let rho = 10f64.powf(-16.0 + 14.5 * k as f64 / n as f64);
        let [a, a_ref, z, z_ref] = ionic(&eos, t, &x, rho);
        let (ea, ez) = ((a / a_ref - 1.0).abs(), (z / z_ref - 1.0).abs());
        if !(ea <= err_a.0) {
            err_a = (ea, rho);
        }
        if !(ez <= err_z.0) {
            err_z = (ez, rho);
        }
    }
    println!("largest relative deviation from the reference: a_ion {:.2e} (at rho = {:.2e}), Z_ion {:.2e} (at rho = {:.2e})", err_a.0, err_a.1, err_z.0, err_z.1);
    assert!(err_a.0 < 1e-12, "a_ion deviates by {:e} at rho = {:e}", err_a.0, err_a.1);
    assert!(err_z.0 < 1e-11, "Z_ion deviates by {:e} at rho = {:e}", err_z.0, err_z.1);
}
