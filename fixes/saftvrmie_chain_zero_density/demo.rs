//! The virial coefficients B(T) and C(T) of SAFT-VR Mie (evaluated with dual numbers
//! at zero density) have to agree with the zero-density limit of the compressibility
//! factor, Z - 1 = B rho + C rho^2 + ..., evaluated at small but finite densities.
use feos::core::parameter::Parameter;
use feos::core::{Contributions, ReferenceSystem, Residual, State};
use feos::saftvrmie::{SaftVRMie, SaftVRMieParameters, SaftVRMieRecord};
use ndarray::{arr1, Array1};
use quantity::*;
use std::sync::Arc;
use typenum::P3;

fn f(
    eos: &Arc<SaftVRMie>,
    t: Temperature,
    x: &Array1<f64>,
    rho: f64, // in 1/A^3
) -> f64 {
    let density = Density::from_reduced(rho);
    let moles = Moles::from_reduced(x.clone());
    let volume = moles.sum() / density;
    let s = State::new_nvt(eos, t, volume, &moles).unwrap();
    // (Z - 1) / rho
    s.compressibility(Contributions::Residual) / rho
}

/// B and C from Z - 1 at finite densities h, 2h, 4h (Richardson extrapolation of g = (Z-1)/rho)
fn virial_from_finite_density(
    eos: &Arc<SaftVRMie>,
    t: Temperature,
    x: &Array1<f64>,
    h: f64,
) -> (f64, f64) {
    let g1 = f(eos, t, x, h);
    let g2 = f(eos, t, x, 2.0 * h);
    let g4 = f(eos, t, x, 4.0 * h);
    // quadratic through 3 points: g(r) = B + C r + D r^2
    // g1 = B + C h + D h^2; g2 = B + 2 C h + 4 D h^2; g4 = B + 4 C h + 16 D h^2
    // g2 - g1 = C h + 3 D h^2 ; g4 - g2 = 2 C h + 12 D h^2
    // => D h^2 = ((g4 - g2) - 2 (g2 - g1)) / 6 ; C h = (g2 - g1) - 3 D h^2
    let dh2 = ((g4 - g2) - 2.0 * (g2 - g1)) / 6.0;
    let ch = (g2 - g1) - 3.0 * dh2;
    let b = g1 - ch - dh2;
    (b, ch / h)
}

fn check(name: &str, eos: &Arc<SaftVRMie>, t: Temperature, x: &Array1<f64>) -> bool {
    let moles = Moles::from_reduced(x.clone());
    let b = eos
        .second_virial_coefficient(t, Some(&moles))
        .unwrap()
        .convert_into(ANGSTROM.powi::<P3>() * NAV);
    let c = eos
        .third_virial_coefficient(t, Some(&moles))
        .unwrap()
        .convert_into(ANGSTROM.powi::<P3>() * NAV * ANGSTROM.powi::<P3>() * NAV);
    let (b_lim, c_lim) = virial_from_finite_density(eos, t, x, 4e-7);
    let (b_lim2, c_lim2) = virial_from_finite_density(eos, t, x, 2e-7);
    println!(
        "{name}: B = {b:.6} (limit {b_lim:.6} / {b_lim2:.6}), C = {c:.4} (limit {c_lim:.4} / {c_lim2:.4})"
    );
    // the oracle itself must be converged
    assert!(((b_lim - b_lim2) / b_lim).abs() < 1e-7);
    assert!(((c_lim - c_lim2) / c_lim).abs() < 1e-3);
    ((b - b_lim) / b_lim).abs() < 1e-6 && ((c - c_lim) / c_lim).abs() < 5e-3
}

fn record(m: f64, sigma: f64, eps: f64, lr: f64, la: f64) -> SaftVRMieRecord {
    SaftVRMieRecord::new_simple(m, sigma, eps, lr, la)
}

#[test]
fn virial_coefficients_match_zero_density_limit() {
    // parameters of Lafitte et al. (2013)
    let ethane = record(1.4373, 3.7257, 206.12, 12.4, 6.0);
    let decane = record(2.9976, 4.5890, 400.79, 18.885, 6.0);
    let methane = record(1.0, 3.7412, 153.36, 12.65, 6.0);

    let mut ok = true;

    let eos = Arc::new(SaftVRMie::new(Arc::new(
        SaftVRMieParameters::from_model_records(vec![methane.clone()]).unwrap(),
    )));
    ok &= check("methane (m = 1)", &eos, 200.0 * KELVIN, &arr1(&[1.0]));

    let eos = Arc::new(SaftVRMie::new(Arc::new(
        SaftVRMieParameters::from_model_records(vec![ethane.clone()]).unwrap(),
    )));
    ok &= check("ethane", &eos, 311.0 * KELVIN, &arr1(&[1.0]));

    let eos = Arc::new(SaftVRMie::new(Arc::new(
        SaftVRMieParameters::from_model_records(vec![decane.clone()]).unwrap(),
    )));
    ok &= check("decane", &eos, 600.0 * KELVIN, &arr1(&[1.0]));

    let eos = Arc::new(SaftVRMie::new(Arc::new(
        SaftVRMieParameters::from_model_records(vec![methane, ethane, decane]).unwrap(),
    )));
    ok &= check(
        "methane/ethane/decane",
        &eos,
        450.0 * KELVIN,
        &arr1(&[0.2, 0.5, 0.3]),
    );

    assert!(ok, "virial coefficients differ from the zero density limit");
}
