//! The derivatives of the adsorbed amounts of a converged pore profile (dn_dmu, dn_dp, dn_dt)
//! have to agree with central finite differences of profiles that are solved again at
//! neighbouring bulk states, also if the fluid is dilute.
use feos::core::parameter::{IdentifierOption, Parameter};
use feos::core::{Contributions, DensityInitialization, ReferenceSystem, State};
use feos::dft::adsorption::{ExternalPotential, Pore1D, PoreProfile1D, PoreSpecification};
use feos::dft::{DFTSolver, Geometry};
use feos::pcsaft::{PcSaftFunctional, PcSaftParameters};
use ndarray::{arr1, Array1, Array2};
use quantity::*;
use std::sync::Arc;

type F = PcSaftFunctional;

fn functional(names: &[&str]) -> Arc<F> {
    let params = PcSaftParameters::from_json(
        names.to_vec(),
        "tests/pcsaft/test_parameters.json",
        None,
        IdentifierOption::Name,
    )
    .unwrap();
    Arc::new(PcSaftFunctional::new(Arc::new(params)))
}

fn pore() -> Pore1D {
    Pore1D::new(
        Geometry::Cartesian,
        20.0 * ANGSTROM,
        ExternalPotential::LJ93 {
            sigma_ss: 3.0,
            epsilon_k_ss: 30.0,
            rho_s: 0.08,
        },
        Some(512),
        None,
    )
}

/// Solve the pore at the given bulk state: Picard iterations first, then Newton steps until the
/// residual of every component is below 1e-11 relative to its bulk density. (The norm that the
/// solver itself reports has a floor from the grid points inside the walls, hence the residual
/// is checked here.)
fn solve(bulk: &State<F>) -> PoreProfile1D<F> {
    let rho_bulk = bulk.partial_density.to_reduced();
    let rho_min = rho_bulk.iter().cloned().fold(f64::INFINITY, f64::min);
    let tol = 1e-12 * rho_min;
    let picard = DFTSolver::new(None).picard_iteration(None, Some(50), Some(1e4 * tol), Some(1.0));
    let newton = DFTSolver::new(None).newton(None, Some(1), Some(300), Some(tol));
    let mut p = pore().initialize(bulk, None, None).unwrap();
    p.solve_inplace(Some(&picard), true).unwrap();
    let mut converged = false;
    for _ in 0..10 {
        let (res, _, _) = p.profile.residual(false).unwrap();
        converged = res.outer_iter().zip(rho_bulk.iter()).all(|(r, &rho_b)| {
            r.iter().fold(0.0_f64, |a, r| a.max(r.abs())) <= 1e-11 * rho_b
        });
        if converged {
            break;
        }
        p.solve_inplace(Some(&newton), true).unwrap();
    }
    assert!(converged, "profile not converged");
    // the bulk state is not changed by the solver
    let dev = max_rel(&p.profile.bulk.partial_density.to_reduced(), &rho_bulk);
    assert!(dev < 1e-15);
    p
}

fn moles(bulk: &State<F>) -> Array1<f64> {
    solve(bulk).profile.moles().to_reduced()
}

/// central difference with Richardson extrapolation (steps h and h/2)
fn central<G: Fn(f64) -> Array1<f64>>(g: G, h: f64) -> (Array1<f64>, f64) {
    let d1 = (g(h) - g(-h)) / (2.0 * h);
    let d2 = (g(0.5 * h) - g(-0.5 * h)) / h;
    let d = (&d2 * 4.0 - &d1) / 3.0;
    let err = (&d2 - &d1)
        .iter()
        .zip(d.iter())
        .map(|(e, d)| (e / d).abs())
        .fold(0.0, f64::max);
    (d, err)
}

fn max_rel(a: &Array1<f64>, b: &Array1<f64>) -> f64 {
    a.iter()
        .zip(b.iter())
        .map(|(a, b)| ((a - b) / b).abs())
        .fold(0.0, f64::max)
}

/// returns the largest relative deviations of (dn_dmu, dn_dp, dn_dt) from the re-solved profiles
fn check(name: &str, func: &Arc<F>, t: f64, rho: f64, x: &Array1<f64>) -> (f64, f64, f64) {
    let h = 1e-2;
    let nc = x.len();
    let temperature = t * KELVIN;
    let volume = Volume::from_reduced(1.0);
    let n0 = Moles::from_reduced(x * rho);
    let bulk = State::new_nvt(func, temperature, volume, &n0).unwrap();
    let pressure = bulk.pressure(Contributions::Total);
    let n_feed = Moles::from_reduced(x.clone());

    let p0 = solve(&bulk);
    let dn_dmu = p0.profile.dn_dmu().unwrap().to_reduced();
    let dn_dp = p0.profile.dn_dp().unwrap().to_reduced();
    let dn_dt = p0.profile.dn_dt().unwrap().to_reduced();

    // dN_i/drho_j = sum_k dN_i/dmu_k dmu_k/drho_j
    let dmu_drho = bulk.dmu_dni(Contributions::Total).to_reduced() * volume.to_reduced();
    let dn_drho = Array2::from_shape_fn((nc, nc), |(i, j)| {
        (0..nc).map(|k| dn_dmu[[k, i]] * dmu_drho[[k, j]]).sum::<f64>()
    });
    let mut dev_mu: f64 = 0.0;
    let mut fd_err: f64 = 0.0;
    for j in 0..nc {
        let (fd, err) = central(
            |h| {
                let mut r = x * rho;
                r[j] *= 1.0 + h;
                let b = State::new_nvt(func, temperature, volume, &Moles::from_reduced(r)).unwrap();
                moles(&b)
            },
            h,
        );
        let fd = fd / (x[j] * rho);
        // all entries are measured relative to the response of N_i to its own bulk density
        for i in 0..nc {
            let scale = (p0.profile.moles().to_reduced()[i] / (x[i] * rho)).abs();
            let scale = scale.max(fd[i].abs());
            dev_mu = dev_mu.max((dn_drho[[i, j]] - fd[i]).abs() / scale);
        }
        fd_err = fd_err.max(err);
    }

    let (fd_p, err) = central(
        |h| {
            let b = State::new_npt(
                func,
                temperature,
                pressure * (1.0 + h),
                &n_feed,
                DensityInitialization::Vapor,
            )
            .unwrap();
            moles(&b)
        },
        h,
    );
    let fd_p = fd_p / pressure.to_reduced();
    fd_err = fd_err.max(err);
    let dev_p = max_rel(&dn_dp, &fd_p);

    let ht = 2e-3;
    let (fd_t, err) = central(
        |h| {
            let b = State::new_npt(
                func,
                temperature * (1.0 + h),
                pressure,
                &n_feed,
                DensityInitialization::Vapor,
            )
            .unwrap();
            moles(&b)
        },
        ht,
    );
    let fd_t = fd_t / t;
    fd_err = fd_err.max(err);
    let dev_t = max_rel(&dn_dt, &fd_t);

    println!("{name}: rho = {rho:e} x = {x}");
    println!("  dn_dp  {dn_dp:e}\n  fd     {fd_p:e}   dev {dev_p:.2e}");
    println!("  dn_dt  {dn_dt:e}\n  fd     {fd_t:e}   dev {dev_t:.2e}");
    println!("  dn_dmu: dev {dev_mu:.2e}   (h vs h/2 of the finite differences: {fd_err:.2e})");
    (dev_mu, dev_p, dev_t)
}

#[test]
fn derivatives_of_dilute_profiles() {
    let mut worst = (0.0_f64, 0.0_f64, 0.0_f64);
    let mut add = |d: (f64, f64, f64)| {
        worst = (worst.0.max(d.0), worst.1.max(d.1), worst.2.max(d.2));
    };

    // dilute pure fluids
    let func = functional(&["methane"]);
    for rho in [1e-6, 1e-8] {
        add(check("methane", &func, 300.0, rho, &arr1(&[1.0])));
    }
    let func = functional(&["butane"]);
    for rho in [1e-9, 1e-11] {
        add(check("butane", &func, 200.0, rho, &arr1(&[1.0])));
    }
    // dilute mixture
    let func = functional(&["methane", "butane"]);
    for rho in [1e-6, 1e-8] {
        let x = arr1(&[0.99, 0.01]);
        add(check("methane/butane", &func, 300.0, rho, &x));
    }
    // trace component in a dense gas
    for x in [1e-6, 1e-8] {
        let x = arr1(&[1.0 - x, x]);
        add(check("methane/butane", &func, 300.0, 1e-3, &x));
    }
    println!(
        "largest deviations: dn_dmu {:.2e}, dn_dp {:.2e}, dn_dt {:.2e}",
        worst.0, worst.1, worst.2
    );

    // At even lower densities the re-solved profiles themselves are only good to about 1e-5
    // (dn_dp, whose right-hand side does not scale with the density, shows the same deviation).
    let func = functional(&["butane"]);
    let very_dilute = check("butane", &func, 200.0, 1e-13, &arr1(&[1.0]));

    assert!(worst.0 < 1e-6, "dn_dmu differs from re-solved profiles");
    assert!(worst.1 < 1e-6, "dn_dp differs from re-solved profiles");
    assert!(worst.2 < 1e-6, "dn_dt differs from re-solved profiles");
    assert!(very_dilute.0 < 5e-5 && very_dilute.1 < 5e-5 && very_dilute.2 < 5e-5);
}
