//! FMTVersion::AntiSymWhiteBear: xi2 = n2v.n2v / n2^2 must not be 0/0 where n2 vanishes
//! (bulk at zero density, inside walls).
use approx::assert_relative_eq;
use feos::hard_sphere::FMTVersion;
use feos::pcsaft::{PcSaftFunctional, PcSaftParameters};
use feos::pets::{PetsFunctional, PetsParameters, PetsRecord};
use feos_core::parameter::{IdentifierOption, Parameter, PureRecord};
use feos_core::{DensityInitialization, Residual, State};
use feos_dft::adsorption::{ExternalPotential, Pore1D, PoreSpecification};
use feos_dft::{Geometry, HelmholtzEnergyFunctional};
use ndarray::Array1;
use quantity::*;
use std::sync::Arc;
use typenum::{P3, P6};

fn pcsaft(names: &[&str], version: FMTVersion) -> Arc<PcSaftFunctional> {
    let params = PcSaftParameters::from_json(
        names.to_vec(),
        "tests/pcsaft/test_parameters.json",
        None,
        IdentifierOption::Name,
    )
    .unwrap();
    Arc::new(PcSaftFunctional::new_full(Arc::new(params), version))
}

fn pets(n: usize, version: FMTVersion) -> Arc<PetsFunctional> {
    let records = [(3.4, 120.0, 39.9), (3.7, 150.0, 16.0)][..n]
        .iter()
        .map(|&(s, e, mw)| {
            PureRecord::new(
                Default::default(),
                mw,
                PetsRecord::new(s, e, None, None, None),
            )
        })
        .collect();
    let params = PetsParameters::from_records(records, None).unwrap();
    Arc::new(PetsFunctional::new_full(Arc::new(params), version))
}

/// [B, C, dB/dT, dC/dT] in SI units
fn virial<F: Residual>(f: &Arc<F>, t: f64, x: &[f64]) -> [f64; 4] {
    let moles = Array1::from_vec(x.to_vec()) * MOL;
    let t = t * KELVIN;
    let m3 = METER.powi::<P3>() / MOL;
    let m6 = METER.powi::<P6>() / (MOL * MOL);
    [
        f.second_virial_coefficient(t, Some(&moles))
            .unwrap()
            .convert_into(m3),
        f.third_virial_coefficient(t, Some(&moles))
            .unwrap()
            .convert_into(m6),
        f.second_virial_coefficient_temperature_derivative(t, Some(&moles))
            .unwrap()
            .convert_into(m3 / KELVIN),
        f.third_virial_coefficient_temperature_derivative(t, Some(&moles))
            .unwrap()
            .convert_into(m6 / KELVIN),
    ]
}

fn check_virial<F: Residual>(what: &str, asym: &Arc<F>, wb: &Arc<F>, t: f64, x: &[f64]) {
    // In a bulk phase the vector weighted densities vanish, so that the White-Bear and the
    // antisymmetrized White-Bear functional are the same equation of state.
    let a = virial(asym, t, x);
    let w = virial(wb, t, x);
    println!("{what}: AntiSymWB {a:?}\n{what}: WB        {w:?}");
    for (a, w) in a.iter().zip(w.iter()) {
        assert!(a.is_finite(), "{what}: virial coefficients {a}");
        assert_relative_eq!(a, w, max_relative = 1e-12);
    }
}

#[test]
fn bulk_virial_coefficients() {
    // pure_saft_functional.rs
    check_virial(
        "PC-SAFT methane",
        &pcsaft(&["methane"], FMTVersion::AntiSymWhiteBear),
        &pcsaft(&["methane"], FMTVersion::WhiteBear),
        250.0,
        &[1.0],
    );
    // pure_pets_functional.rs
    check_virial(
        "PeTS pure",
        &pets(1, FMTVersion::AntiSymWhiteBear),
        &pets(1, FMTVersion::WhiteBear),
        150.0,
        &[1.0],
    );
    // hard_sphere/dft.rs
    check_virial(
        "PC-SAFT propane/butane",
        &pcsaft(&["propane", "butane"], FMTVersion::AntiSymWhiteBear),
        &pcsaft(&["propane", "butane"], FMTVersion::WhiteBear),
        350.0,
        &[0.4, 0.6],
    );
    check_virial(
        "PeTS mixture",
        &pets(2, FMTVersion::AntiSymWhiteBear),
        &pets(2, FMTVersion::WhiteBear),
        150.0,
        &[0.4, 0.6],
    );
}

fn check_pore<F>(what: &str, func: &Arc<F>, t: f64, p: f64, x: &[f64])
where
    F: HelmholtzEnergyFunctional + feos_dft::adsorption::FluidParameters,
{
    let moles = Array1::from_vec(x.to_vec()) * MOL;
    let bulk = State::new_npt(
        func,
        t * KELVIN,
        p * BAR,
        &moles,
        DensityInitialization::Vapor,
    )
    .unwrap();
    let pore = Pore1D::new(
        Geometry::Cartesian,
        40.0 * ANGSTROM,
        ExternalPotential::LJ93 {
            sigma_ss: 3.5,
            epsilon_k_ss: 20.0,
            rho_s: 0.09,
        },
        Some(1024),
        None,
    )
    .initialize(&bulk, None, None)
    .unwrap()
    .solve(None)
    .unwrap();
    let omega = pore.grand_potential.unwrap().convert_into(JOULE);
    let gamma = pore.interfacial_tension.unwrap().convert_into(JOULE);
    let res = pore.profile.residual(false).map(|r| r.2);
    let dn_dt = pore
        .profile
        .dn_dt()
        .map(|d| d.convert_into(MOL / KELVIN).to_vec());
    let h_ads = pore
        .enthalpy_of_adsorption()
        .map(|h| h.convert_into(KILO * JOULE / MOL));
    println!("{what}: omega = {omega:e} J, gamma = {gamma:e} J, residual = {res:?}, dn_dt = {dn_dt:?}, h_ads = {h_ads:?}");
    assert!(omega.is_finite(), "{what}: grand potential {omega}");
    assert!(gamma.is_finite(), "{what}: interfacial tension {gamma}");
    let res = res.unwrap_or_else(|e| panic!("{what}: residual() of the returned profile: {e}"));
    assert!(res < 1e-8, "{what}: residual of the returned profile {res}");
    let dn_dt = dn_dt.unwrap();
    assert!(dn_dt.iter().all(|d| d.is_finite()), "{what}: dn_dt {dn_dt:?}");
    assert!(h_ads.unwrap().is_finite());
}

#[test]
fn slit_pore_mixture() {
    check_pore(
        "PeTS mixture",
        &pets(2, FMTVersion::AntiSymWhiteBear),
        110.0,
        1.0,
        &[0.4, 0.6],
    );
}

#[test]
fn slit_pore_pure() {
    check_pore(
        "PeTS pure",
        &pets(1, FMTVersion::AntiSymWhiteBear),
        100.0,
        1.0,
        &[1.0],
    );
    check_pore(
        "PC-SAFT methane",
        &pcsaft(&["methane"], FMTVersion::AntiSymWhiteBear),
        130.0,
        1.0,
        &[1.0],
    );
}
