//! Virial coefficients of SAFT-VRQ Mie mixtures with the non-additive hard-sphere term.
use approx::assert_relative_eq;
use feos::core::parameter::{IdentifierOption, Parameter};
use quantity::*;
use typenum::{P3, P6};
use feos::core::{Contributions, Residual, State};
use feos::saftvrqmie::{SaftVRQMie, SaftVRQMieOptions, SaftVRQMieParameters};
use ndarray::arr1;
use std::sync::Arc;

fn model(inc_nonadd_term: bool) -> Arc<SaftVRQMie> {
    let parameters = SaftVRQMieParameters::from_json(
        vec!["hydrogen", "neon"],
        "parameters/saftvrqmie/aasen2019.json",
        Some("parameters/saftvrqmie/aasen2020_binary.json"),
        IdentifierOption::Name,
    )
    .unwrap();
    Arc::new(SaftVRQMie::with_options(
        Arc::new(parameters),
        SaftVRQMieOptions {
            max_eta: 0.5,
            inc_nonadd_term,
        },
    ))
}

#[test]
fn virial_coefficients_of_mixture_match_low_density_limit() {
    let eos = model(true);
    let t = 45.0 * KELVIN;
    let x = arr1(&[0.3, 0.7]);
    let moles = &x * MOL;

    let b = eos.second_virial_coefficient(t, Some(&moles)).unwrap();
    let c = eos.third_virial_coefficient(t, Some(&moles)).unwrap();
    let db = eos
        .second_virial_coefficient_temperature_derivative(t, Some(&moles))
        .unwrap();
    let dc = eos
        .third_virial_coefficient_temperature_derivative(t, Some(&moles))
        .unwrap();
    let b_r = b.convert_into(METER.powi::<P3>() / MOL);
    let c_r = c.convert_into(METER.powi::<P6>() / (MOL * MOL));
    let db_r = db.convert_into(METER.powi::<P3>() / MOL / KELVIN);
    let dc_r = dc.convert_into(METER.powi::<P6>() / (MOL * MOL) / KELVIN);
    println!("B = {b_r:e} m3/mol, C = {c_r:e} m6/mol2, dB/dT = {db_r:e}, dC/dT = {dc_r:e}");
    assert!(b_r.is_finite(), "B is {b_r}");
    assert!(c_r.is_finite(), "C is {c_r}");
    assert!(db_r.is_finite(), "dB/dT is {db_r}");
    assert!(dc_r.is_finite(), "dC/dT is {dc_r}");

    // B and C from the compressibility factor at two low densities: Z - 1 = B rho + C rho^2
    let z1 = |rho: f64| {
        let s = State::new_nvt(&eos, t, METER.powi::<P3>() / rho, &moles).unwrap();
        (s.compressibility(Contributions::Total) - 1.0) / rho
    };
    let (r1, r2) = (20.0, 40.0); // mol/m3
    let (y1, y2) = (z1(r1), z1(r2));
    let c_fd = (y2 - y1) / (r2 - r1);
    let b_fd = y1 - c_fd * r1;
    println!("from Z: B = {b_fd:e}, C = {c_fd:e}");
    assert_relative_eq!(b_r, b_fd, max_relative = 1e-6);
    assert_relative_eq!(c_r, c_fd, max_relative = 1e-2);

    // the non-additive term contributes to B: B - B(additive) = -2 pi sum_ij x_i x_j m_i m_j d_add^2 (d_add - d_ij)
    // (sign/size checked only loosely here: it must be non-zero and small compared with B)
    let b_add = model(false)
        .second_virial_coefficient(t, Some(&moles))
        .unwrap()
        .convert_into(METER.powi::<P3>() / MOL);
    println!("B(additive) = {b_add:e}");
    assert!((b_r - b_add).abs() > 0.0 && (b_r - b_add).abs() < 0.5 * b_add.abs().max(1e-5));
}

/// Finite-density properties (printed with full precision to compare before/after the repair).
#[test]
fn finite_density_values() {
    let eos = model(true);
    let moles = arr1(&[0.3, 0.7]) * MOL;
    for (t, rho) in [(45.0, 20.0e3), (30.0, 35.0e3), (80.0, 1.0)] {
        let s = State::new_nvt(
            &eos,
            t * KELVIN,
            METER.powi::<P3>() / rho,
            &moles,
        )
        .unwrap();
        let p = s.pressure(Contributions::Total).convert_into(PASCAL);
        let mu = s
            .residual_chemical_potential()
            .convert_into(JOULE / MOL);
        let a = s.residual_molar_helmholtz_energy().convert_into(JOULE / MOL);
        let cv = s.residual_molar_isochoric_heat_capacity().convert_into(JOULE / MOL / KELVIN);
        println!("FINITE T={t} rho={rho}: p={p:.15e} a={a:.15e} mu={:.15e},{:.15e} cv={cv:.15e}", mu[0], mu[1]);
        assert!(p.is_finite() && a.is_finite());
    }
}
