use feos::pcsaft::{PcSaft, PcSaftParameters};
use feos_core::parameter::{IdentifierOption, Parameter};
use feos_core::{Contributions, PhaseDiagram, SolverOptions, State};
use ndarray::arr1;
use quantity::*;
use std::sync::Arc;

/// The dew point line of an equimolar butane/isobutane mixture contains a pressure-specified
/// point that does not converge. The line has to be returned without that point instead of
/// panicking, and the remaining states have to be ordered dew points of the given mixture.
#[test]
fn dew_point_line_survives_failed_pressure_point() {
    let params = PcSaftParameters::from_json(
        vec!["butane", "isobutane"],
        "parameters/pcsaft/gross2001.json",
        None,
        IdentifierOption::Name,
    )
    .unwrap();
    let saft = Arc::new(PcSaft::new(Arc::new(params)));
    let moles = arr1(&[0.5, 0.5]) * MOL;
    let cp = State::critical_point(&saft, Some(&moles), None, SolverOptions::default()).unwrap();
    let tmin = 0.5 * cp.temperature;
    let npoints = 9;
    let dia = PhaseDiagram::dew_point_line(
        &saft,
        &moles,
        tmin,
        npoints,
        None,
        Default::default(),
    )
    .expect("dew_point_line returns an error");
    let n = dia.states.len();
    println!("number of states: {n}");
    assert!(n >= 2 && n <= npoints);
    // last state is the critical point
    let p_c = cp.pressure(Contributions::Total);
    for (i, s) in dia.states.iter().enumerate() {
        let p = s.vapor().pressure(Contributions::Total);
        let t = s.vapor().temperature;
        println!(
            "{i}: T = {t}, p = {p}, y = {}, x = {}",
            s.vapor().molefracs,
            s.liquid().molefracs
        );
        // all states are dew points of the specified mixture
        assert!((s.vapor().molefracs[0] - 0.5).abs() < 1e-10);
        assert!(t >= tmin * (1.0 - 1e-10) && t <= cp.temperature * (1.0 + 1e-10));
        assert!(p <= p_c * (1.0 + 1e-10));
        // mechanical equilibrium
        let pl = s.liquid().pressure(Contributions::Total);
        assert!(((p - pl) / p).into_value().abs() < 1e-6);
        if i > 0 {
            let s0 = &dia.states[i - 1];
            // (the first pressure-specified point repeats the last temperature-specified one)
            assert!(t >= s0.vapor().temperature * (1.0 - 1e-8));
            assert!(p >= s0.vapor().pressure(Contributions::Total) * (1.0 - 1e-8));
        }
    }
}
