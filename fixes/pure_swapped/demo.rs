use feos::pcsaft::{PcSaft, PcSaftParameters};
use feos_core::parameter::{IdentifierOption, Parameter};
use feos_core::{Contributions, PhaseEquilibrium, SolverOptions, State};
use quantity::*;
use std::sync::Arc;

/// A pure component equilibrium that is initialized with the equilibrium at a higher
/// temperature close to the critical point has to return the vapor as `vapor()` and the liquid
/// as `liquid()`, and has to agree with the calculation without initial state.
#[test]
fn pure_with_initial_state_orders_phases() {
    let params = PcSaftParameters::from_json(
        vec!["methane"],
        "parameters/pcsaft/gross2001.json",
        None,
        IdentifierOption::Name,
    )
    .unwrap();
    let saft = Arc::new(PcSaft::new(Arc::new(params)));
    let tc = State::critical_point(&saft, None, None, SolverOptions::default())
        .unwrap()
        .temperature;
    let mut swapped_t = 0;
    let mut swapped_p = 0;
    let mut total = 0;
    // scan of targets and distances of the initial state, includes the case
    // T/Tc = 0.959, T'/Tc = 0.989
    for i in 0..40 {
        let tr = 0.90 + 0.002 * i as f64;
        for j in 1..10 {
            let tr_init = tr + 0.01 * j as f64;
            if tr_init > 0.995 {
                continue;
            }
            let init =
                PhaseEquilibrium::pure(&saft, tr_init * tc, None, SolverOptions::default()).unwrap();
            assert!(init.vapor().density < init.liquid().density);
            let reference =
                PhaseEquilibrium::pure(&saft, tr * tc, None, SolverOptions::default()).unwrap();
            assert!(reference.vapor().density < reference.liquid().density);

            // temperature specification
            total += 1;
            if let Ok(vle) =
                PhaseEquilibrium::pure(&saft, tr * tc, Some(&init), SolverOptions::default())
            {
                if vle.vapor().density > vle.liquid().density {
                    swapped_t += 1;
                    println!(
                        "T-spec: T/Tc = {tr:.3}, T'/Tc = {tr_init:.3}: vapor().density = {} > liquid().density = {} (reference {} / {})",
                        vle.vapor().density,
                        vle.liquid().density,
                        reference.vapor().density,
                        reference.liquid().density
                    );
                } else {
                    let dv = (vle.vapor().density / reference.vapor().density).into_value() - 1.0;
                    let dl = (vle.liquid().density / reference.liquid().density).into_value() - 1.0;
                    assert!(dv.abs() < 1e-7 && dl.abs() < 1e-7, "{dv} {dl}");
                }
            }

            // pressure specification
            let p = reference.vapor().pressure(Contributions::Total);
            if let Ok(vle) = PhaseEquilibrium::pure(&saft, p, Some(&init), SolverOptions::default())
            {
                if vle.vapor().density > vle.liquid().density {
                    swapped_p += 1;
                    println!(
                        "p-spec: T/Tc = {tr:.3}, T'/Tc = {tr_init:.3}: vapor().density = {} > liquid().density = {}",
                        vle.vapor().density,
                        vle.liquid().density,
                    );
                }
            }
        }
    }
    println!("{total} cases, swapped: {swapped_t} (temperature), {swapped_p} (pressure)");
    assert_eq!(swapped_t, 0);
    assert_eq!(swapped_p, 0);
}
