//! With the default specification (chemical potential) the bulk state of a DFT profile
//! is an input: solving the profile with the default solver (Anderson mixing) must return
//! a profile for the bulk state that was requested. With a particle number specification
//! the bulk densities are unknowns and still have to be iterated.
use feos::core::parameter::{IdentifierOption, Parameter};
use feos::core::{PhaseEquilibrium, ReferenceSystem, State, StateBuilder};
use feos::dft::adsorption::{ExternalPotential, Pore1D, PoreSpecification};
use feos::dft::interface::PlanarInterface;
use feos::dft::{DFTSolver, DFTSpecifications, Geometry};
use feos::pcsaft::{PcSaftFunctional, PcSaftParameters};
use ndarray::Array1;
use quantity::*;
use std::sync::Arc;

fn functional(names: &[&str]) -> Arc<PcSaftFunctional> {
    let params = PcSaftParameters::from_json(
        names.to_vec(),
        "tests/pcsaft/test_parameters.json",
        None,
        IdentifierOption::Name,
    )
    .unwrap();
    Arc::new(PcSaftFunctional::new(Arc::new(params)))
}

fn max_rel_dev(a: &Array1<f64>, b: &Array1<f64>) -> f64 {
    a.iter()
        .zip(b.iter())
        .map(|(a, b)| ((a - b) / b).abs())
        .fold(0.0, f64::max)
}

fn pore(size: f64, potential: ExternalPotential) -> Pore1D {
    Pore1D::new(Geometry::Cartesian, size * ANGSTROM, potential, None, None)
}

#[test]
fn default_solver_keeps_bulk_state() {
    let mut worst: f64 = 0.0;

    // pure fluids in slit pores
    for (name, t, p_rel, size) in [
        ("propane", 250.0, 0.05, 20.0),
        ("propane", 250.0, 0.5, 30.0),
        ("propane", 300.0, 0.7, 40.0),
        ("butane", 300.0, 0.3, 25.0),
        ("carbon-dioxide", 250.0, 0.6, 35.0),
    ] {
        let func = functional(&[name]);
        let t = t * KELVIN;
        let p_sat = PhaseEquilibrium::pure(&func, t, None, Default::default())
            .unwrap()
            .vapor()
            .pressure(feos::core::Contributions::Total);
        let bulk = State::new_npt(
            &func,
            t,
            p_rel * p_sat,
            &(Array1::from_elem(1, 1.0) * MOL),
            feos::core::DensityInitialization::Vapor,
        )
        .unwrap();
        for potential in [
            ExternalPotential::LJ93 {
                sigma_ss: 3.0,
                epsilon_k_ss: 30.0,
                rho_s: 0.08,
            },
            ExternalPotential::Steele {
                sigma_ss: 3.4,
                epsilon_k_ss: 28.0,
                rho_s: 0.114,
                xi: Some(0.7),
            },
        ] {
            let rho0 = bulk.partial_density.to_reduced();
            let result = pore(size, potential)
                .initialize(&bulk, None, None)
                .unwrap()
                .solve(None);
            let Ok(result) = result else {
                println!("{name} {t} {p_rel} {size}: not converged");
                continue;
            };
            let rho1 = result.profile.bulk.partial_density.to_reduced();
            let dev = max_rel_dev(&rho1, &rho0);
            println!("{name:15} T={t} p/psat={p_rel} L={size}: bulk density {rho0} -> {rho1}, rel. change {dev:.3e}");
            worst = worst.max(dev);
        }
    }

    // binary mixture in a slit pore
    let func = functional(&["methane", "butane"]);
    let bulk = StateBuilder::new(&func)
        .temperature(300.0 * KELVIN)
        .pressure(5.0 * BAR)
        .molefracs(&ndarray::arr1(&[0.7, 0.3]))
        .vapor()
        .build()
        .unwrap();
    let rho0 = bulk.partial_density.to_reduced();
    let result = pore(
        30.0,
        ExternalPotential::LJ93 {
            sigma_ss: 3.0,
            epsilon_k_ss: 30.0,
            rho_s: 0.08,
        },
    )
    .initialize(&bulk, None, None)
    .unwrap()
    .solve(None)
    .unwrap();
    let rho1 = result.profile.bulk.partial_density.to_reduced();
    let dev = max_rel_dev(&rho1, &rho0);
    println!("methane/butane: bulk density {rho0} -> {rho1}, rel. change {dev:.3e}");
    worst = worst.max(dev);

    // planar interface
    let func = functional(&["propane"]);
    let t = 250.0 * KELVIN;
    let vle = PhaseEquilibrium::pure(&func, t, None, Default::default()).unwrap();
    let tc = State::critical_point(&func, None, None, Default::default())
        .unwrap()
        .temperature;
    let interface = PlanarInterface::from_tanh(&vle, 1024, 100.0 * ANGSTROM, tc, false);
    let rho0 = interface.profile.bulk.partial_density.to_reduced();
    let interface = interface.solve(None).unwrap();
    let rho1 = interface.profile.bulk.partial_density.to_reduced();
    let dev = max_rel_dev(&rho1, &rho0);
    println!("interface: bulk density {rho0} -> {rho1}, rel. change {dev:.3e}");
    worst = worst.max(dev);

    println!("largest relative change of a bulk density: {worst:.3e}");
    assert!(
        worst <= 1e-15,
        "the bulk state was changed by the solver (rel. {worst:.3e})"
    );
}

#[test]
fn particle_number_specification_still_iterates_bulk() {
    let func = functional(&["propane"]);
    let t = 250.0 * KELVIN;
    let bulk = StateBuilder::new(&func)
        .temperature(t)
        .pressure(0.5 * BAR)
        .vapor()
        .build()
        .unwrap();
    let potential = ExternalPotential::LJ93 {
        sigma_ss: 3.0,
        epsilon_k_ss: 30.0,
        rho_s: 0.08,
    };
    let solved = pore(20.0, potential)
        .initialize(&bulk, None, None)
        .unwrap()
        .solve(None)
        .unwrap();
    let n0 = solved.profile.moles().to_reduced();
    let rho0 = solved.profile.bulk.partial_density.to_reduced();

    // ask for 20 % more molecules in the pore, using the default solver
    let mut pore = solved.clone();
    let target = &n0 * 1.2;
    pore.profile.specification = Arc::new(DFTSpecifications::Moles {
        moles: target.clone(),
    });
    let solver = DFTSolver::default();
    pore.solve_inplace(Some(&solver), false).unwrap();
    let n1 = pore.profile.moles().to_reduced();
    let rho1 = pore.profile.bulk.partial_density.to_reduced();
    println!("moles {n0} -> {n1} (target {target}), bulk density {rho0} -> {rho1}");
    // the solver tolerance (1e-11 in the norm of all residuals) corresponds to about 3e-5 here
    assert!(max_rel_dev(&n1, &target) < 1e-4);
    assert!(rho1[0] > rho0[0] * 1.01);
}
