use feos::pcsaft::{PcSaft, PcSaftBinaryRecord, PcSaftParameters, PcSaftRecord};
use feos_core::parameter::{Parameter, PureRecord};
use feos_core::{Contributions, EosError, PhaseEquilibrium, ReferenceSystem, State};
use quantity::*;
use std::sync::Arc;

const WATER: &str = r#"{"identifier": {"name": "water"}, "molarweight": 18.015,
    "model_record": {"m": 1.0656, "sigma": 3.0007, "epsilon_k": 366.51,
                     "kappa_ab": 0.034868, "epsilon_k_ab": 2500.7, "na": 1.0, "nb": 1.0}}"#;
const METHANOL: &str = r#"{"identifier": {"name": "methanol"}, "molarweight": 32.042,
    "model_record": {"m": 1.5255, "sigma": 3.23, "epsilon_k": 188.9,
                     "kappa_ab": 0.035176, "epsilon_k_ab": 2899.5, "na": 1.0, "nb": 1.0}}"#;
const HEXENE: &str = r#"{"identifier": {"name": "1-hexene"}, "molarweight": 84.616,
    "model_record": {"m": 2.9853, "sigma": 3.7753, "epsilon_k": 236.81}}"#;

fn eos(organic: &str, k_ij: Option<f64>) -> Arc<PcSaft> {
    let r1: PureRecord<PcSaftRecord> = serde_json::from_str(WATER).unwrap();
    let r2: PureRecord<PcSaftRecord> = serde_json::from_str(organic).unwrap();
    let params =
        PcSaftParameters::new_binary(vec![r1, r2], k_ij.map(PcSaftBinaryRecord::from)).unwrap();
    Arc::new(PcSaft::new(Arc::new(params)))
}

/// largest relative deviation of the partial densities of two phases
fn deviation(a: &State<PcSaft>, b: &State<PcSaft>) -> f64 {
    let ra = a.partial_density.to_reduced();
    let rb = b.partial_density.to_reduced();
    ra.iter()
        .zip(rb.iter())
        .fold(0.0, |acc: f64, (&x, &y)| acc.max((y / x - 1.0).abs()))
}

/// returns the number of results in which two phases coincide
fn scan(
    eos: &Arc<PcSaft>,
    name: &str,
    temperatures: &[f64],
    x_inits: &[(f64, f64)],
) -> (usize, usize, usize) {
    let (mut ok, mut identical, mut trivial_err) = (0, 0, 0);
    for &t in temperatures {
        for &x_init in x_inits {
            // temperature specification
            let r = PhaseEquilibrium::heteroazeotrope(
                eos,
                t * KELVIN,
                x_init,
                None,
                Default::default(),
                Default::default(),
            );
            let mut results = vec![("T", r)];
            // pressure specification at the bubble point pressure of the first liquid
            if let Ok(vle) = PhaseEquilibrium::bubble_point(
                eos,
                t * KELVIN,
                &ndarray::arr1(&[x_init.0, 1.0 - x_init.0]),
                None,
                None,
                Default::default(),
            ) {
                let p = vle.vapor().pressure(Contributions::Total);
                let r = PhaseEquilibrium::heteroazeotrope(
                    eos,
                    p,
                    x_init,
                    Some(t * KELVIN),
                    Default::default(),
                    Default::default(),
                );
                results.push(("p", r));
            }
            for (spec, r) in results {
                match r {
                    Ok(vlle) => {
                        ok += 1;
                        let (v, l1, l2) = (vlle.vapor(), vlle.liquid1(), vlle.liquid2());
                        println!(
                            "{name} {spec}-spec T = {t} x_init = {x_init:?}: Ok T = {}, p = {}, x1 = {:.6e} (v) {:.6e} (l1) {:.6e} (l2)",
                            v.temperature,
                            v.pressure(Contributions::Total),
                            v.molefracs[0],
                            l1.molefracs[0],
                            l2.molefracs[0]
                        );
                        for (tag, a, b) in [("l1,l2", l1, l2), ("v,l1", v, l1), ("v,l2", v, l2)] {
                            if PhaseEquilibrium::is_trivial_solution(a, b) {
                                identical += 1;
                                println!(
                                    "{name} {spec}-spec T = {t} x_init = {x_init:?}: Ok with {tag} identical (deviation {:e}): x1 = {:.6} / {:.6}, rho = {} / {}, p = {}",
                                    deviation(a, b),
                                    a.molefracs[0],
                                    b.molefracs[0],
                                    a.density,
                                    b.density,
                                    a.pressure(Contributions::Total)
                                );
                            }
                        }
                    }
                    Err(EosError::TrivialSolution) => trivial_err += 1,
                    Err(_) => (),
                }
            }
        }
    }
    println!("{name}: {ok} Ok results, {identical} identical phase pairs, {trivial_err} Err(TrivialSolution)");
    (ok, identical, trivial_err)
}

/// Water and methanol are completely miscible in PC-SAFT without k_ij, so there is no
/// heteroazeotrope. The solver must not return Ok with two identical liquid phases.
#[test]
fn heteroazeotrope_rejects_identical_phases() {
    let x_inits = [
        (0.9999890112324414, 0.0014324042799902874),
        (0.99, 0.01),
        (0.9, 0.1),
        (0.8, 0.3),
    ];
    let (_, identical, _) = scan(
        &eos(METHANOL, None),
        "water/methanol",
        &[290.0, 310.7742358511314, 330.0, 350.0],
        &x_inits,
    );
    assert_eq!(identical, 0);
}

/// Water and 1-hexene do have a heteroazeotrope: the valid results must stay available.
#[test]
fn heteroazeotrope_keeps_valid_results() {
    let x_inits = [(0.9999, 0.001), (0.999, 0.01)];
    let (ok, identical, trivial) = scan(
        &eos(HEXENE, None),
        "water/1-hexene",
        &[300.0, 320.0, 340.0, 360.0],
        &x_inits,
    );
    assert_eq!(identical, 0);
    assert_eq!(trivial, 0);
    assert!(ok >= 1);
}

/// Informative: case with k_ij in which vapor and liquid nearly coincide.
#[test]
fn heteroazeotrope_near_identical_vapor() {
    let e = eos(HEXENE, Some(-0.06664399161934853));
    let r = PhaseEquilibrium::heteroazeotrope(
        &e,
        377.4227833375335 * KELVIN,
        (0.9921896707128801, 0.0005612211252955879),
        None,
        Default::default(),
        Default::default(),
    );
    match r {
        Ok(vlle) => {
            let (v, l1, l2) = (vlle.vapor(), vlle.liquid1(), vlle.liquid2());
            for (tag, a, b) in [("l1,l2", l1, l2), ("v,l1", v, l1), ("v,l2", v, l2)] {
                println!(
                    "{tag}: deviation {:e}, trivial {}, x1 = {:e} / {:e}, rho = {} / {}, p = {}",
                    deviation(a, b),
                    PhaseEquilibrium::is_trivial_solution(a, b),
                    a.molefracs[0],
                    b.molefracs[0],
                    a.density,
                    b.density,
                    a.pressure(Contributions::Total)
                );
                assert!(!PhaseEquilibrium::is_trivial_solution(a, b));
            }
        }
        Err(e) => println!("Err: {e}"),
    }
}
