//! The bulk Helmholtz energy of PcSaftFunctional has to equal the one of PcSaft built from
//! the same parameters and the same PcSaftOptions, for both dipole-quadrupole variants.
#![cfg(all(feature = "dft", feature = "pcsaft"))]
use feos::core::parameter::{Parameter, PureRecord};
use feos::core::State;
use feos::hard_sphere::FMTVersion;
use feos::pcsaft::{
    DQVariants, PcSaft, PcSaftFunctional, PcSaftOptions, PcSaftParameters, PcSaftRecord,
};
use ndarray::arr1;
use quantity::*;
use std::sync::Arc;

fn parameters() -> Arc<PcSaftParameters> {
    let json = r#"[
        {"identifier": {"cas": "115-10-6", "name": "dimethyl-ether"}, "molarweight": 46.0688,
         "model_record": {"m": 2.2634, "sigma": 3.2723, "epsilon_k": 210.29, "mu": 1.3}},
        {"identifier": {"cas": "124-38-9", "name": "carbon-dioxide"}, "molarweight": 44.0098,
         "model_record": {"m": 1.5131, "sigma": 3.1869, "epsilon_k": 163.333, "q": 4.4}}
    ]"#;
    let records: Vec<PureRecord<PcSaftRecord>> = serde_json::from_str(json).unwrap();
    Arc::new(PcSaftParameters::new_binary(records, None).unwrap())
}

/// (a_res of the equation of state, a_res of the functional), both divided by RT
fn a_res(variant: DQVariants, fmt: FMTVersion) -> (f64, f64) {
    let options = PcSaftOptions {
        dq_variant: variant,
        ..Default::default()
    };
    let eos = Arc::new(PcSaft::with_options(parameters(), options));
    let func = Arc::new(PcSaftFunctional::with_options(parameters(), fmt, options));
    let t = 250.0 * KELVIN;
    // 18 kmol/m3
    let v = 1e-3 * METER * METER * METER;
    let n = arr1(&[9.0, 9.0]) * MOL;
    let se = State::new_nvt(&eos, t, v, &n).unwrap();
    let sf = State::new_nvt(&func, t, v, &n).unwrap();
    let ae = (se.residual_molar_helmholtz_energy() / (RGAS * t)).into_value();
    let af = (sf.residual_molar_helmholtz_energy() / (RGAS * t)).into_value();
    (ae, af)
}

#[test]
fn functional_honours_dq_variant() {
    let mut ok = true;
    for (name, fmt) in [
        ("WhiteBear", FMTVersion::WhiteBear),
        ("KierlikRosinberg", FMTVersion::KierlikRosinberg),
    ] {
        let (e35, f35) = a_res(DQVariants::DQ35, fmt);
        let (e44, f44) = a_res(DQVariants::DQ44, fmt);
        println!("{name} DQ35: eos {e35:.15} functional {f35:.15} rel. dev. {:e}", f35 / e35 - 1.0);
        println!("{name} DQ44: eos {e44:.15} functional {f44:.15} rel. dev. {:e}", f44 / e44 - 1.0);
        // the two variants are different models for sigma_d != sigma_q
        assert!((e44 / e35 - 1.0).abs() > 1e-6);
        ok &= (f35 / e35 - 1.0).abs() < 1e-12;
        ok &= (f44 / e44 - 1.0).abs() < 1e-12;
    }
    assert!(ok);
}
