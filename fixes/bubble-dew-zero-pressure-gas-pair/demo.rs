//! A density iteration for a pressure that is not a number cannot converge:
//! State::new_npt has to return an error instead of an arbitrary state.
use feos::core::parameter::{IdentifierOption, Parameter};
use feos::core::{Contributions, DensityInitialization, State};
use feos::pcsaft::{PcSaft, PcSaftParameters};
use ndarray::arr1;
use quantity::*;
use std::sync::Arc;

#[test]
fn new_npt_rejects_nan_pressure() {
    let p = PcSaftParameters::from_json(
        vec!["propane", "butane"],
        "tests/pcsaft/test_parameters.json",
        None,
        IdentifierOption::Name,
    )
    .unwrap();
    let eos = Arc::new(PcSaft::new(Arc::new(p)));
    let t = 300.0 * KELVIN;
    let moles = arr1(&[0.5, 0.5]) * MOL;
    let mut bad = Vec::new();
    for p in [f64::NAN * PASCAL, f64::INFINITY * PASCAL, f64::NEG_INFINITY * PASCAL] {
        for (name, init) in [
            ("None", DensityInitialization::None),
            ("Vapor", DensityInitialization::Vapor),
            ("Liquid", DensityInitialization::Liquid),
            (
                "InitialDensity",
                DensityInitialization::InitialDensity(1.0 * KILO * MOL / (METER * METER * METER)),
            ),
        ] {
            if let Ok(s) = State::new_npt(&eos, t, p, &moles, init) {
                bad.push(format!(
                    "target p = {p}, {name}: Ok(rho = {}, p = {})",
                    s.density,
                    s.pressure(Contributions::Total)
                ));
            }
        }
    }
    // finite pressures are unaffected
    let s = State::new_npt(&eos, t, 1.0 * BAR, &moles, DensityInitialization::Vapor).unwrap();
    assert!(((s.pressure(Contributions::Total) - BAR) / BAR).into_value().abs() < 1e-10);
    assert!(bad.is_empty(), "{}", bad.join("\n"));
}

/// Bubble point of the finding (PC-SAFT 3-pentanol / methyl chloride, poor initial pressure
/// and vapour composition, 4 inner iterations): the pressure iteration runs away, the Newton
/// step yields a NaN pressure and the density iteration used to return a dilute gas at
/// p ~ 1e-195 for it, which was then reported as converged. Whenever the call returns Ok
/// the two phases have to be in mechanical equilibrium.
#[test]
fn bubble_point_does_not_converge_to_collapsed_vapour() {
    use feos::core::parameter::PureRecord;
    use feos::core::{PhaseEquilibrium, SolverOptions};
    use feos::pcsaft::PcSaftRecord;
    let recs: Vec<PureRecord<PcSaftRecord>> = serde_json::from_str(
        r#"[
        {"identifier": {"cas": "584-02-1", "name": "3-pentanol"},
         "model_record": {"epsilon_k": 162.73433804276743, "epsilon_k_ab": 1516.0966359637514,
            "kappa_ab": 0.12199296128478555, "m": 4.509382495395084, "na": 2.0, "nb": 2.0,
            "sigma": 3.1583304901996687}, "molarweight": 88.15},
        {"identifier": {"cas": "74-87-3", "name": "methyl chloride"},
         "model_record": {"epsilon_k": 240.56, "m": 1.9297, "sigma": 3.2293}, "molarweight": 50.488}
        ]"#,
    )
    .unwrap();
    let eos = Arc::new(PcSaft::new(Arc::new(
        PcSaftParameters::from_records(recs, None).unwrap(),
    )));
    let tc = (0..2)
        .map(|i| {
            let pure = Arc::new(feos::core::Components::subset(&*eos, &[i]));
            State::critical_point(&pure, None, None, SolverOptions::default())
                .unwrap()
                .temperature
        })
        .fold(f64::INFINITY * KELVIN, |a, b| if b < a { b } else { a });
    let t = 0.8517903359257616 * tc;
    let x = arr1(&[0.3249059476398226, 0.6750940523601775]);
    let base =
        PhaseEquilibrium::bubble_point(&eos, t, &x, None, None, Default::default()).unwrap();
    let p0 = base.vapor().pressure(Contributions::Total);
    println!("default bubble point: p = {p0}, y = {}", base.vapor().molefracs);
    let y0 = &base.vapor().molefracs;
    let s = -0.41962993144989014_f64;
    let y = arr1(&[y0[0] * s.exp(), y0[1] * (-s).exp()]);
    let y = &y / y.sum();
    let r = PhaseEquilibrium::bubble_point(
        &eos,
        t,
        &x,
        Some(p0 * 2.3147659478937785),
        Some(&y),
        (SolverOptions::new().max_iter(4), SolverOptions::default()),
    );
    match r {
        Err(e) => println!("variant: Err({e})"),
        Ok(pe) => {
            let (pv, pl) = (
                pe.vapor().pressure(Contributions::Total),
                pe.liquid().pressure(Contributions::Total),
            );
            println!(
                "variant: Ok, p_v = {pv:e}, p_l = {pl:e}, rho_v = {:e}, rho_l = {:e}",
                pe.vapor().density,
                pe.liquid().density
            );
            assert!(
                ((pv - pl) / pl).into_value().abs() < 1e-6,
                "bubble_point returned Ok with p_vapour = {pv:e}, p_liquid = {pl:e}"
            );
        }
    }
}
