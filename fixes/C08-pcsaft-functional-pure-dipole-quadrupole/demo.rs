//! The bulk Helmholtz energy of the pure-component PcSaftFunctional (White Bear versions) has
//! to equal PcSaft (and the Kierlik-Rosinberg / mixture code path of the same functional) for
//! a component that carries a dipole and a quadrupole moment.
#![cfg(all(feature = "dft", feature = "pcsaft"))]
use feos::core::parameter::{Parameter, PureRecord};
use feos::core::{Contributions, PhaseEquilibrium, State};
use feos::dft::interface::PlanarInterface;
use feos::dft::PdgtFunctionalProperties;
use feos::hard_sphere::FMTVersion;
use feos::pcsaft::{PcSaft, PcSaftFunctional, PcSaftParameters, PcSaftRecord};
use ndarray::arr1;
use quantity::*;
use std::sync::Arc;

fn parameters(m: f64, mu: Option<f64>, q: Option<f64>) -> Arc<PcSaftParameters> {
    let mut json = format!(
        r#"{{"identifier": {{"cas": "105-00-5", "name": "dipolar quadrupolar"}}, "molarweight": 58.08,
         "model_record": {{"m": {m}, "sigma": 3.2, "epsilon_k": 250.0"#
    );
    if let Some(mu) = mu {
        json += &format!(r#", "mu": {mu}"#);
    }
    if let Some(q) = q {
        json += &format!(r#", "q": {q}"#);
    }
    json += "}}";
    let record: PureRecord<PcSaftRecord> = serde_json::from_str(&json).unwrap();
    Arc::new(PcSaftParameters::new_pure(record).unwrap())
}

/// [a_res/RT, p/(rho R T), mu_res/RT]
fn props<E: feos::core::Residual>(eos: &Arc<E>, eta: f64, m: f64) -> [f64; 3] {
    let t = 300.0 * KELVIN;
    // sigma is close enough to d for this purpose: eta = pi/6 m rho sigma^3
    let rho = eta / (std::f64::consts::FRAC_PI_6 * m * 3.2f64.powi(3)); // 1/A^3
    let v = 1000.0 * ANGSTROM * ANGSTROM * ANGSTROM;
    let n = arr1(&[rho * 1000.0]) / NAV;
    let s = State::new_nvt(eos, t, v, &n).unwrap();
    [
        (s.residual_molar_helmholtz_energy() / (RGAS * t)).into_value(),
        s.compressibility(Contributions::Total),
        (s.residual_chemical_potential().get(0) / (RGAS * t)).into_value(),
    ]
}

fn max_dev(a: [f64; 3], b: [f64; 3]) -> f64 {
    a.iter().zip(b).map(|(a, b)| (a / b - 1.0).abs()).fold(0.0, f64::max)
}

#[test]
fn pure_functional_equals_eos_for_dipole_and_quadrupole() {
    let mut worst: f64 = 0.0;
    for m in [1.0, 1.5, 2.7] {
        for (mu, q) in [(Some(2.88), Some(4.0)), (Some(1.3), Some(4.4))] {
            for eta in [0.01, 0.2, 0.35] {
                let p = parameters(m, mu, q);
                let eos = props(&Arc::new(PcSaft::new(p.clone())), eta, m);
                let kr = props(
                    &Arc::new(PcSaftFunctional::new_full(p.clone(), FMTVersion::KierlikRosinberg)),
                    eta,
                    m,
                );
                let wb = props(&Arc::new(PcSaftFunctional::new(p.clone())), eta, m);
                let awb = props(
                    &Arc::new(PcSaftFunctional::new_full(p.clone(), FMTVersion::AntiSymWhiteBear)),
                    eta,
                    m,
                );
                println!(
                    "m={m} mu={mu:?} q={q:?} eta={eta}: a_res/RT eos {:.12} KR {:.12} WB {:.12} AWB {:.12} | max rel. dev. (a, Z, mu) KR {:.1e} WB {:.1e} AWB {:.1e}",
                    eos[0], kr[0], wb[0], awb[0], max_dev(kr, eos), max_dev(wb, eos), max_dev(awb, eos)
                );
                assert!(max_dev(kr, eos) < 1e-10);
                worst = worst.max(max_dev(wb, eos)).max(max_dev(awb, eos));
            }
        }
    }
    println!("worst deviation of the pure functional: {worst:e}");
    assert!(worst < 1e-10);
}

/// components with only one kind of multipole are untouched
#[test]
fn only_dipole_or_only_quadrupole() {
    for (mu, q) in [(Some(2.88), None), (None, Some(4.0)), (None, None)] {
        let p = parameters(2.7, mu, q);
        let eos = props(&Arc::new(PcSaft::new(p.clone())), 0.35, 2.7);
        let wb = props(&Arc::new(PcSaftFunctional::new(p.clone())), 0.35, 2.7);
        println!("mu={mu:?} q={q:?}: eos {:.15} WB {:.15}", eos[0], wb[0]);
        assert!(max_dev(wb, eos) < 1e-10);
    }
}

/// the surface tension of the pure functional (White Bear) and of the mixture code path with
/// the same FMT version (vector weighted densities) agree, as they do for non-polar components
/// (tests/pcsaft/dft.rs)
#[test]
fn surface_tension_of_both_code_paths() {
    let p = parameters(2.7, Some(2.88), Some(4.0));
    let pure = Arc::new(PcSaftFunctional::new(p.clone()));
    // a binary mixture with a vanishing amount of a second component would be another
    // route; Kierlik-Rosinberg is the mixture path that is available for one component
    let full = Arc::new(PcSaftFunctional::new_full(p, FMTVersion::KierlikRosinberg));
    let tc_pure = State::critical_point(&pure, None, None, Default::default()).unwrap().temperature;
    let tc_full = State::critical_point(&full, None, None, Default::default()).unwrap().temperature;
    println!("Tc pure {tc_pure} full {tc_full}");
    assert!(((tc_pure / tc_full).into_value() - 1.0).abs() < 1e-8);
    let t = 0.7 * tc_full;
    let vle_pure = PhaseEquilibrium::pure(&pure, t, None, Default::default()).unwrap();
    let vle_full = PhaseEquilibrium::pure(&full, t, None, Default::default()).unwrap();
    let g_pure = PlanarInterface::from_tanh(&vle_pure, 1024, 150.0 * ANGSTROM, tc_full, false)
        .solve(None)
        .unwrap()
        .surface_tension
        .unwrap()
        .convert_to(MILLI * NEWTON / METER);
    let g_full = PlanarInterface::from_tanh(&vle_full, 1024, 150.0 * ANGSTROM, tc_full, false)
        .solve(None)
        .unwrap()
        .surface_tension
        .unwrap()
        .convert_to(MILLI * NEWTON / METER);
    let gp_pure = pure.solve_pdgt(&vle_pure, 198, 0, None).unwrap().1.convert_to(MILLI * NEWTON / METER);
    let gp_full = full.solve_pdgt(&vle_full, 198, 0, None).unwrap().1.convert_to(MILLI * NEWTON / METER);
    println!("DFT  gamma pure {g_pure} full {g_full} mN/m, ratio {}", g_pure / g_full);
    println!("pDGT gamma pure {gp_pure} full {gp_full} mN/m, ratio {}", gp_pure / gp_full);
    // White Bear vs. Kierlik-Rosinberg: 3e-4 for propane (tests/pcsaft/dft.rs)
    assert!((g_pure / g_full - 1.0).abs() < 5e-3);
    assert!((gp_pure / gp_full - 1.0).abs() < 5e-3);
}
