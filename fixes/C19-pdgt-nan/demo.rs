//! solve_pdgt must never return Ok with a non-finite surface tension: where the square
//! root of 2 c delta_omega is undefined (for the quantum fluids below the influence parameter
//! c is negative at liquid-like densities) it has to report an error like
//! PlanarInterface::from_pdgt does.
#![cfg(all(feature = "dft", feature = "saftvrqmie", feature = "pcsaft"))]
use feos::core::parameter::{IdentifierOption, Parameter};
use feos::core::{PhaseEquilibrium, State};
use feos::dft::PdgtFunctionalProperties;
use feos::pcsaft::{PcSaftFunctional, PcSaftParameters};
use feos::saftvrqmie::{SaftVRQMieFunctional, SaftVRQMieParameters};
use quantity::*;
use std::sync::Arc;

fn gamma_vrq(name: &str, tau: f64, n_grid: usize) -> Result<f64, String> {
    let params = Arc::new(
        SaftVRQMieParameters::from_json(
            vec![name],
            "parameters/saftvrqmie/aasen2019.json",
            None,
            IdentifierOption::Name,
        )
        .unwrap(),
    );
    let func = Arc::new(SaftVRQMieFunctional::new(params));
    let tc = State::critical_point(&func, None, None, Default::default())
        .unwrap()
        .temperature;
    let vle = PhaseEquilibrium::pure(&func, tau * tc, None, Default::default())
        .map_err(|e| format!("vle: {e}"))?;
    func.solve_pdgt(&vle, n_grid, 0, None)
        .map(|(_, g)| g.convert_to(MILLI * NEWTON / METER))
        .map_err(|e| e.to_string())
}

#[test]
fn solve_pdgt_never_returns_ok_nan() {
    let mut bad = vec![];
    for name in ["neon", "hydrogen", "helium"] {
        for tau in [0.5, 0.51, 0.52, 0.6, 0.7, 0.8] {
            for n in [20, 198] {
                let r = gamma_vrq(name, tau, n);
                println!("{name:10} T/Tc={tau:4} n={n:3}: {r:?}");
                if let Ok(g) = r {
                    if !g.is_finite() {
                        bad.push((name, tau, n));
                    }
                }
            }
        }
    }
    assert!(bad.is_empty(), "solve_pdgt returned Ok(NaN) for {bad:?}");
}

/// valid results stay what they were (propane PC-SAFT value pinned in tests/pcsaft/dft.rs)
#[test]
fn propane_unchanged() {
    let params = Arc::new(
        PcSaftParameters::from_json(
            vec!["propane"],
            "tests/pcsaft/test_parameters.json",
            None,
            IdentifierOption::Name,
        )
        .unwrap(),
    );
    let func = Arc::new(PcSaftFunctional::new(params));
    let vle = PhaseEquilibrium::pure(&func, 200.0 * KELVIN, None, Default::default()).unwrap();
    let (_, g) = func.solve_pdgt(&vle, 198, 0, None).unwrap();
    let g = g.convert_to(MILLI * NEWTON / METER);
    println!("{g:.16}");
    // value pinned in tests/pcsaft/dft.rs (old k_B)
    let pinned = 20.2849756479219039 * 1.380649e-23 / 1.38064852e-23;
    assert!((g / pinned - 1.0).abs() < 1e-12, "{g} vs {pinned}");
}
