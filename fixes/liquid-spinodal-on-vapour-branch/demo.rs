//! State::spinodal has to return the vapour and the liquid spinodal: for a pure
//! fluid below its critical temperature the two densities bracket the critical
//! density, dp/drho = 0 holds at both, the vapour spinodal is a maximum and the
//! liquid spinodal a minimum of the isotherm.
use feos::core::parameter::{Parameter, PureRecord};
use feos::core::cubic::{PengRobinson, PengRobinsonParameters};
use feos::core::{Contributions, ReferenceSystem, Residual, State};
use ndarray::arr1;
use feos::pcsaft::{PcSaft, PcSaftParameters, PcSaftRecord};
use quantity::*;
use std::sync::Arc;

fn records(file: &str, stride: usize) -> Vec<PureRecord<PcSaftRecord>> {
    let s = std::fs::read_to_string(file).unwrap();
    let r: Vec<PureRecord<PcSaftRecord>> = serde_json::from_str(&s).unwrap();
    r.into_iter().step_by(stride).collect()
}

/// Returns a message if State::spinodal does not return the two spinodals of a pure fluid.
fn check_pure<E: Residual>(eos: &Arc<E>, name: &str, cp: &State<E>, theta: f64) -> Option<String> {
    let t = theta * cp.temperature;
    let msg = match State::spinodal(eos, t, None, Default::default()) {
        Err(e) => Some(format!("error {e}")),
        Ok([v, l]) => {
            let rt = RGAS * t;
            let slope = |s: &State<E>| (s.dp_drho(Contributions::Total) / rt).into_value();
            let curv =
                |s: &State<E>| (s.d2p_drho2(Contributions::Total) * cp.density / rt).into_value();
            if !(v.density < cp.density && cp.density < l.density) {
                Some(format!(
                    "densities do not bracket rho_c: rho_v/rho_c = {:.6}, rho_l/rho_c = {:.6}",
                    (v.density / cp.density).into_value(),
                    (l.density / cp.density).into_value()
                ))
            } else if slope(&v).abs() > 1e-6 || slope(&l).abs() > 1e-6 {
                Some(format!("dp/drho/RT = {:e}, {:e}", slope(&v), slope(&l)))
            } else if !(curv(&v) < 0.0 && curv(&l) > 0.0) {
                Some(format!("d2p/drho2 = {:e}, {:e}", curv(&v), curv(&l)))
            } else {
                if let Ok(file) = std::env::var("FIX_DUMP") {
                    use std::io::Write;
                    let mut f = std::fs::OpenOptions::new()
                        .create(true)
                        .append(true)
                        .open(file)
                        .unwrap();
                    writeln!(
                        f,
                        "{name} {theta} {:.15e} {:.15e}",
                        v.density.to_reduced(),
                        l.density.to_reduced()
                    )
                    .unwrap();
                }
                None
            }
        }
    };
    msg.map(|msg| format!("{name} T/Tc = {theta}: {msg}"))
}

fn report(model: &str, thetas: &[f64], total: &[usize], bad: &[usize], examples: &[String]) {
    for (k, theta) in thetas.iter().enumerate() {
        println!(
            "{model} T/Tc = {theta}: {} of {} fluids without valid spinodal pair",
            bad[k], total[k]
        );
    }
    for e in examples.iter().take(12) {
        println!("  {e}");
    }
}

#[test]
fn spinodal_of_shipped_pcsaft_records() {
    let mut recs = records("parameters/pcsaft/gross2001.json", 1);
    recs.extend(records("parameters/pcsaft/gross2006.json", 1));
    recs.extend(records("parameters/pcsaft/esper2023.json", 12));
    let thetas = [0.5, 0.6, 0.7, 0.9, 0.99];
    let mut total = vec![0; thetas.len()];
    let mut bad = vec![0; thetas.len()];
    let mut examples = Vec::new();
    for rec in recs {
        let name = rec.identifier.name.clone().unwrap_or_default();
        let eos = Arc::new(PcSaft::new(Arc::new(PcSaftParameters::new_pure(rec).unwrap())));
        let Ok(cp) = State::critical_point(&eos, None, None, Default::default()) else {
            continue;
        };
        for (k, &theta) in thetas.iter().enumerate() {
            total[k] += 1;
            if let Some(msg) = check_pure(&eos, &name, &cp, theta) {
                bad[k] += 1;
                examples.push(msg);
            }
        }
    }
    report("PC-SAFT", &thetas, &total, &bad, &examples);
    assert_eq!(bad.iter().sum::<usize>(), 0);
}

#[test]
fn spinodal_of_random_peng_robinson_fluids() {
    let thetas = [0.5, 0.55, 0.6, 0.7, 0.9, 0.99];
    let mut total = vec![0; thetas.len()];
    let mut bad = vec![0; thetas.len()];
    let mut examples = Vec::new();
    let mut seed = 12345u64;
    let mut uniform = || {
        seed = seed.wrapping_mul(6364136223846793005).wrapping_add(1442695040888963407);
        (seed >> 11) as f64 / (1u64 << 53) as f64
    };
    for i in 0..200 {
        let tc = 100.0 + 600.0 * uniform();
        let pc = 1e6 + 7e6 * uniform();
        let omega = -0.05 + 0.85 * uniform();
        let p = PengRobinsonParameters::new_simple(&[tc], &[pc], &[omega], &[50.0]).unwrap();
        let eos = Arc::new(PengRobinson::new(Arc::new(p)));
        let name = format!("PR fluid {i} (tc = {tc:.1}, pc = {pc:.0}, omega = {omega:.3})");
        let cp = State::critical_point(&eos, None, None, Default::default()).unwrap();
        for (k, &theta) in thetas.iter().enumerate() {
            total[k] += 1;
            if let Some(msg) = check_pure(&eos, &name, &cp, theta) {
                bad[k] += 1;
                examples.push(msg);
            }
        }
    }
    report("Peng-Robinson", &thetas, &total, &bad, &examples);
    assert_eq!(bad.iter().sum::<usize>(), 0);
}

/// smallest eigenvalue of the (scaled) Hessian of the Helmholtz energy of a binary mixture
fn stability(eos: &Arc<PengRobinson>, t: Temperature, rho: Density, x: &[f64; 2]) -> f64 {
    let moles = arr1(x) * MOL;
    let s = State::new_nvt(eos, t, moles.sum() / rho, &moles).unwrap();
    let h = (s.dmu_dni(Contributions::Total) * MOL / (RGAS * t)).into_value();
    let (a, b, d) = (h[[0, 0]] * x[0], h[[0, 1]] * (x[0] * x[1]).sqrt(), h[[1, 1]] * x[1]);
    0.5 * (a + d) - (0.25 * (a - d) * (a - d) + b * b).sqrt()
}

fn check_binary(name: &str, eos: &Arc<PengRobinson>, x: [f64; 2], thetas: &[f64]) -> usize {
    let moles = arr1(&x) * MOL;
    let cp = State::critical_point(eos, Some(&moles), None, Default::default()).unwrap();
    let max_density = eos.max_density(Some(&moles)).unwrap();
    let mut bad = 0;
    for &theta in thetas {
        let t = theta * cp.temperature;
        let ok = match State::spinodal(eos, t, Some(&moles), Default::default()) {
            Ok([v, l]) => {
                let mid = 0.5 * (v.density + l.density);
                let (ev, em, el, el_plus) = (
                    stability(eos, t, v.density, &x),
                    stability(eos, t, mid, &x),
                    stability(eos, t, l.density, &x),
                    stability(eos, t, 1.01 * l.density, &x),
                );
                let ok = l.density > 1.001 * v.density
                    && ev.abs() < 1e-6
                    && el.abs() < 1e-6
                    && em < 0.0
                    && el_plus > 0.0;
                println!(
                    "{name} x1 = {:.3} T/Tc = {theta:.3}: rho_v = {:.6e} rho_l = {:.6e}, eigenvalue at v, mid, l, 1.01 l: {ev:.1e} {em:.1e} {el:.1e} {el_plus:.1e} {}",
                    x[0],
                    v.density.to_reduced(),
                    l.density.to_reduced(),
                    if ok { "ok" } else { "INVALID" }
                );
                ok
            }
            Err(e) => {
                // an error is the correct answer if the mixture is stable at all densities or
                // does not become stable again between the vapour spinodal and the maximum density
                let ev: Vec<_> = (1..=1000)
                    .map(|i| stability(eos, t, max_density * (i as f64 * 1e-3), &x))
                    .collect();
                let first_unstable = ev.iter().position(|&e| e < 0.0);
                let ok = first_unstable.is_none_or(|i| ev[i..].iter().all(|&e| e < 0.0));
                println!(
                    "{name} x1 = {:.3} T/Tc = {theta:.3}: error {e} {}",
                    x[0],
                    match (ok, first_unstable) {
                        (true, None) => "ok (stable at all densities)",
                        (true, Some(_)) => "ok (unstable up to the maximum density)",
                        _ => "INVALID (a liquid spinodal exists)",
                    }
                );
                ok
            }
        };
        if !ok {
            bad += 1
        }
    }
    bad
}

#[test]
fn spinodal_of_peng_robinson_mixture() {
    let thetas = [0.5229765534377657, 0.6, 0.7, 0.8, 0.9, 0.95, 1.02];
    let p = PengRobinsonParameters::new_simple(
        &[180.48369626048952, 189.16494374388338],
        &[2274719.0727386624, 7188043.518224731],
        &[0.019692881358787398, 0.4795116601279005],
        &[16.0, 16.0],
    )
    .unwrap();
    let eos = Arc::new(PengRobinson::new(Arc::new(p)));
    let mut bad = check_binary("random pair", &eos, [0.058826155017600384, 0.9411738449823996], &thetas);
    // methane/butane
    let p = PengRobinsonParameters::new_simple(
        &[190.56, 425.12],
        &[4.599e6, 3.796e6],
        &[0.011, 0.2],
        &[16.0, 58.0],
    )
    .unwrap();
    let eos = Arc::new(PengRobinson::new(Arc::new(p)));
    for x1 in [0.2, 0.5, 0.8] {
        bad += check_binary("methane/butane", &eos, [x1, 1.0 - x1], &thetas);
    }
    assert_eq!(bad, 0);
}
