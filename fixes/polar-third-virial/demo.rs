//! The third virial coefficient (and its temperature derivative) of polar
//! PC-SAFT / gc-PC-SAFT models has to agree with the low density limit of
//! (Z - 1 - B rho) / rho^2 obtained from the compressibility factor.
use feos::core::parameter::{IdentifierOption, Parameter, ParameterHetero};
use feos::core::{Contributions, Residual, State};
use feos::gc_pcsaft::{GcPcSaft, GcPcSaftEosParameters};
use feos::pcsaft::{PcSaft, PcSaftParameters};
use ndarray::{arr1, Array1};
use quantity::*;
use std::sync::Arc;
use typenum::{P3, P6};

/// f(rho) = Z_res / rho = B + C rho + D rho^2 + ...
fn f<E: Residual>(eos: &Arc<E>, t: f64, rho: f64, x: &Array1<f64>) -> f64 {
    let density = rho * MOL / METER.powi::<P3>();
    let moles = x * MOL;
    let volume = moles.sum() / density;
    let s = State::new_nvt(eos, t * KELVIN, volume, &moles).unwrap();
    s.compressibility(Contributions::Residual) / rho
}

/// C from finite densities, Richardson extrapolation of the one sided difference
fn c_limit<E: Residual>(eos: &Arc<E>, t: f64, x: &Array1<f64>) -> f64 {
    let h = 2e-4 * eos.max_density(Some(&(x * MOL))).unwrap().convert_into(MOL / METER.powi::<P3>());
    let g = |h: f64| (f(eos, t, 2.0 * h, x) - f(eos, t, h, x)) / h;
    // g(h) = C + 3 D h + 7 E h^2
    let (g1, g2, g4) = (g(h), g(2.0 * h), g(4.0 * h));
    let r1 = 2.0 * g1 - g2;
    let r2 = 2.0 * g2 - g4;
    // r(h) = C - 14 E h^2
    (4.0 * r1 - r2) / 3.0
}

fn check<E: Residual>(name: &str, eos: &Arc<E>, t: f64, x: &Array1<f64>) {
    let moles = x * MOL;
    let unit = METER.powi::<P6>() / (MOL * MOL);
    let c = eos
        .third_virial_coefficient(t * KELVIN, Some(&moles))
        .unwrap()
        .convert_into(unit);
    let c_lim = c_limit(eos, t, x);
    let dt = 1e-3 * t;
    let dc_lim = (c_limit(eos, t + dt, x) - c_limit(eos, t - dt, x)) / (2.0 * dt);
    let dc = eos
        .third_virial_coefficient_temperature_derivative(t * KELVIN, Some(&moles))
        .unwrap()
        .convert_into(unit / KELVIN);
    println!(
        "{name}: C = {c:.6e}  limit {c_lim:.6e}  rel.dev {:.3e} | dC/dT = {dc:.6e}  limit {dc_lim:.6e}  rel.dev {:.3e}",
        (c - c_lim) / c_lim,
        (dc - dc_lim) / dc_lim
    );
    assert!(((c - c_lim) / c_lim).abs() < 1e-5, "{name}: C = {c}, limit {c_lim}");
    assert!(((dc - dc_lim) / dc_lim).abs() < 1e-4, "{name}: dC/dT = {dc}, limit {dc_lim}");
}

fn pcsaft(input: &[(Vec<&str>, &str)]) -> Arc<PcSaft> {
    let p = PcSaftParameters::from_multiple_json(input, None, IdentifierOption::Name).unwrap();
    Arc::new(PcSaft::new(Arc::new(p)))
}

#[test]
fn dipole() {
    let eos = pcsaft(&[(vec!["acetone"], "parameters/pcsaft/gross2006.json")]);
    check("acetone 522 K", &eos, 522.0, &arr1(&[1.0]));
}

#[test]
fn dipole_mixture() {
    let eos = pcsaft(&[(
        vec!["acetone", "butanal", "dimethyl ether"],
        "parameters/pcsaft/gross2006.json",
    )]);
    check("acetone/butanal/dme 450 K", &eos, 450.0, &arr1(&[0.2, 0.3, 0.5]));
}

#[test]
fn quadrupole() {
    let eos = pcsaft(&[(
        vec!["carbon dioxide"],
        "parameters/pcsaft/gross2005_literature.json",
    )]);
    check("co2 320 K", &eos, 320.0, &arr1(&[1.0]));
}

#[test]
fn quadrupole_mixture() {
    let eos = pcsaft(&[(
        vec!["carbon dioxide", "chlorine", "ethylene"],
        "parameters/pcsaft/gross2005_literature.json",
    )]);
    check("co2/cl2/c2h4 350 K", &eos, 350.0, &arr1(&[0.2, 0.3, 0.5]));
}

#[test]
fn dipole_quadrupole() {
    let eos = pcsaft(&[
        (vec!["acetone", "dimethyl ether"], "parameters/pcsaft/gross2006.json"),
        (
            vec!["carbon dioxide", "chlorine"],
            "parameters/pcsaft/gross2005_literature.json",
        ),
    ]);
    check("acetone/dme/co2/cl2 400 K", &eos, 400.0, &arr1(&[0.1, 0.3, 0.4, 0.2]));
}

#[test]
fn mixture_with_nonpolar_component() {
    let eos = pcsaft(&[
        (vec!["acetone"], "parameters/pcsaft/gross2006.json"),
        (vec!["hexane"], "parameters/pcsaft/gross2001.json"),
    ]);
    check("acetone/hexane 500 K", &eos, 500.0, &arr1(&[0.4, 0.6]));
}

#[test]
fn gc_dipole() {
    let p = GcPcSaftEosParameters::from_json_segments(
        &["CCCOC(C)=O"],
        "parameters/pcsaft/gc_substances.json",
        "parameters/pcsaft/sauer2014_hetero.json",
        None,
        IdentifierOption::Smiles,
    )
    .unwrap();
    let eos = Arc::new(GcPcSaft::new(Arc::new(p)));
    check("gc propyl ethanoate 500 K", &eos, 500.0, &arr1(&[1.0]));
}

#[test]
fn gc_dipole_mixture() {
    let p = GcPcSaftEosParameters::from_json_segments(
        &["CCCOC(C)=O", "CCCO", "CC(C)=O"],
        "parameters/pcsaft/gc_substances.json",
        "parameters/pcsaft/sauer2014_hetero.json",
        None,
        IdentifierOption::Smiles,
    )
    .unwrap();
    let eos = Arc::new(GcPcSaft::new(Arc::new(p)));
    check("gc ester/propanol/acetone 500 K", &eos, 500.0, &arr1(&[0.3, 0.3, 0.4]));
}
