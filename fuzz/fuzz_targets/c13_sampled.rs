#![no_main]
//! libFuzzer target: bytes -> genome -> the same decode + check functions as the proptest part
//! "sampled" of C13; the oracle runs inside the target, an unlisted violation aborts.
use libfuzzer_sys::fuzz_target;

fuzz_target!(|data: &[u8]| {
    feos_verif::fuzz::run_one("C13", "sampled", data);
});
