#![no_main]
//! libFuzzer target: bytes -> genome -> the same decode + check functions as the proptest part
//! "serde" of C14; the oracle runs inside the target, an unlisted violation aborts.
use libfuzzer_sys::fuzz_target;

fuzz_target!(|data: &[u8]| {
    feos_verif::fuzz::run_one("C14", "serde", data);
});
