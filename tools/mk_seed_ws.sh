#!/bin/bash
# tools/mk_seed_ws.sh <tag>: scratch worktree /tmp/seed_<tag>/repo for a breakage-seeding sub-agent
set -eu
WS="/tmp/seed_$1"
rm -rf "$WS"; mkdir -p "$WS/out"
git -C /repo worktree prune
git -C /repo worktree add --detach "$WS/repo" HEAD >/dev/null 2>&1
echo "$WS"
