#!/bin/bash
# tools/confirm_seed.sh <dir with patch.diff + demo.rs> [<dir> ...]
# Confirms in the scratch worktree /tmp/confirm/repo (outside /repo and /verif) that
#   (1) the demo passes on the unchanged tree, (2) fails with the patch,
#   (3) the workspace test suite still passes with the patch.
# Writes <dir>/confirm.json. The worktree (and its build output) is reused between calls;
# remove it with: git -C /repo worktree remove --force /tmp/confirm/repo
set -u
export CARGO_NET_OFFLINE=true
W="${CONFIRM_WS:-/tmp/confirm}/repo"
if [ ! -d "$W" ]; then
  mkdir -p "$(dirname "$W")"
  git -C /repo worktree prune
  git -C /repo worktree add --detach "$W" HEAD >/dev/null 2>&1 || exit 2
fi
for D in "$@"; do
  D="$(realpath "$D")"
  git -C "$W" checkout -- . ; rm -f "$W/tests/seed_demo.rs"
  cp "$D/demo.rs" "$W/tests/seed_demo.rs"
  (cd "$W" && cargo test --offline --features all_models --test seed_demo -- --test-threads=4) >"$D/confirm_demo_clean.log" 2>&1; rc_clean=$?
  if ! git -C "$W" apply "$D/patch.diff"; then echo "{\"error\": \"patch does not apply\"}" >"$D/confirm.json"; continue; fi
  (cd "$W" && cargo test --offline --features all_models --test seed_demo -- --test-threads=4) >"$D/confirm_demo_patched.log" 2>&1; rc_patched=$?
  rm -f "$W/tests/seed_demo.rs"
  (cd "$W" && cargo test --workspace --no-fail-fast --offline) >"$D/confirm_suite.log" 2>&1; rc_suite=$?
  passed=$(grep -E "^test result:" "$D/confirm_suite.log" | sed -E 's/.* ([0-9]+) passed.*/\1/' | paste -sd+ | bc)
  failed=$(grep -E "^test result:" "$D/confirm_suite.log" | sed -E 's/.* ([0-9]+) failed.*/\1/' | paste -sd+ | bc)
  git -C "$W" checkout -- .
  cat >"$D/confirm.json" <<EOF
{"demo_exit_unchanged": $rc_clean, "demo_exit_patched": $rc_patched, "suite_exit_patched": $rc_suite, "suite_passed": ${passed:-0}, "suite_failed": ${failed:-0},
 "confirmed": $( [ $rc_clean -eq 0 ] && [ $rc_patched -ne 0 ] && [ $rc_suite -eq 0 ] && echo true || echo false )}
EOF
  echo "$D: $(cat "$D/confirm.json" | tr -d '\n')"
  tail -n 3 "$D/confirm_demo_clean.log" "$D/confirm_demo_patched.log" >/dev/null
  rm -f "$D/confirm_suite.log.tmp"
done
