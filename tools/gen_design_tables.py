#!/usr/bin/env python3
"""Regenerate the machine-written tables of DESIGN.md (between BEGIN/END markers) from
known_findings.json and seeded/*/*/meta.json + seeded/detection.json."""
import json, os, glob, re

ROOT = os.path.dirname(os.path.dirname(os.path.abspath(__file__)))

def findings_table():
    d = json.load(open(os.path.join(ROOT, "known_findings.json")))
    rows = ["| id | status | commit | what (short) |", "|---|---|---|---|"]
    for f in d["findings"]:
        what = re.sub(r"\s+", " ", f["what"]).replace("|", "/")
        if len(what) > 260:
            what = what[:257] + "..."
        rows.append(f"| `{f['id']}` | {f['status']} | {f.get('commit','')} | {what} |")
    n_open = sum(1 for f in d["findings"] if f["status"] == "open")
    n_fixed = sum(1 for f in d["findings"] if f["status"] == "fixed")
    return f"{n_open} open entries, {n_fixed} fixed entries (several ids share one root cause / commit).\n\n" + "\n".join(rows)

def seeded_table():
    det = json.load(open(os.path.join(ROOT, "seeded", "detection.json")))
    rows = ["| property / seeded change | confirmed (demo passes / fails, suite passes) | detection by the quick tiers |", "|---|---|---|"]
    for d in sorted(glob.glob(os.path.join(ROOT, "seeded", "C*", "*"))):
        if not os.path.isdir(d):
            continue
        key = f"{os.path.basename(os.path.dirname(d))}/{os.path.basename(d)}"
        c = None
        if os.path.exists(os.path.join(d, "confirm.json")):
            c = json.load(open(os.path.join(d, "confirm.json")))
        conf = "pending" if c is None else ("yes" if c.get("confirmed") else f"NO {c}")
        dd = det.get(key, {})
        rows.append(f"| `{key}` | {conf} | " + "; ".join(f"{k}: {v}" for k, v in dd.items()) + " |")
    return "\n".join(rows)

def main():
    p = os.path.join(ROOT, "DESIGN.md")
    s = open(p).read()
    for name, fn in (("FINDINGS", findings_table), ("SEEDED", seeded_table)):
        b, e = f"<!-- BEGIN:{name} -->", f"<!-- END:{name} -->"
        if b in s and e in s:
            s = s[: s.index(b) + len(b)] + "\n" + fn() + "\n" + s[s.index(e):]
    open(p, "w").write(s)
    print("DESIGN.md tables regenerated")

if __name__ == "__main__":
    main()
