#!/usr/bin/env python3
"""Generate /verif/MANIFEST.json from the table below (kept in one place so that the
manifest always validates). Run: python3 tools/gen_manifest.py"""
import json, os, sys

ROOT = os.path.dirname(os.path.dirname(os.path.abspath(__file__)))

# id -> (technique, level text, level note, design ref)
CHECKS = {
    "C01": (
        "property-based testing (proptest genomes -> model zoo x states x directions); oracle: Ridders-extrapolated numerical derivative (with its own error estimate) of the next-lower-order public getter on neighbouring states; per-contribution localisation",
        "Generated-input search over all 13 model families (equations of state and every functional as bulk model), shipped/perturbed/random parameter sets, 1-3 components and the whole (T, eta, x) box of the quantifier: 13 (T,V,N)-derivative getters of orders 1-3 and up to 7 caloric / fugacity-derivative getters per case are compared with numerical derivatives whose error estimate decides between conclusive and inconclusive. A mismatch is confirmed at two step sizes, localised to the contribution that disagrees and shrunk to a replay. Exploration: piecewise-smooth models are only tested away from their kinks.",
        "Trusted: State::new_nvt/new_npt for neighbours (new_npt neighbours accepted only within 30 % of the centre density), the zeroth-order Helmholtz energy itself (a wrong A that is consistently differentiated is C08's business). Known finding masked by signature: ePC-SAFT T-derivatives with T-dependent sigma/k_ij. Verdict rule: inconclusive if err > 1e-5 S; violation iff |a-d| > max(50 err, 1e-6 S) (1e-5 S on constant-p paths).",
        "DESIGN.md section 4, C01",
    ),
    "C02": (
        "property-based testing (proptest genomes -> model zoo x states); oracle: algebraic identities on one state with per-contribution cancellation-safe scales + metamorphic (V,N)->(lV,lN) scaling relation",
        "Generated-input search: every run evaluates the Euler relation, the two Gibbs-Duhem forms, symmetry of dmu/dN, sum_i N_i dlnphi_i/dN_j = 0, the partial-molar sum rules and ~60 scaling relations on thousands of random (model, state, lambda) cases over all 13 model families; a violated identity is shrunk to a minimal replay. Exploration, not proof: absence of violations is only established on the cases generated.",
        "Trusted: quantity's unit conversion (to_reduced), the public derive*/contributions route used for the scales, proptest's generator. Tolerances: 1e-10 (identities) / 1e-10 (scaling) of the contribution-wise absolute sum, times (1+1e-2/eta) for dilute states; dp_dv-dependent quantities skipped when dp_dv is ill-conditioned (>1e4).",
        "DESIGN.md section 4, C02",
    ),
}

CHECKS["C11"] = (
    "stateful / model-based property testing: exhaustive short histories over the cache-key classes + proptest-generated operation sequences (getters, clones) against a fresh-state reference model; real-thread stress runs; differential par_pure vs pure",
    "Histories: all sequences of the 12 atomic getters (one per cache-key class and dual-number type) up to length 2 (quick) / 3 (thorough) are enumerated exhaustively on five fixed systems, and thousands of generated sequences of up to 50 operations over 66 getters and clone operations are run on fixed systems and on the whole model zoo; after every step the returned value must equal the value of that getter on a fresh state. Schedules: the same sequences are executed by 2-16 real threads on one shared state. par_pure is compared with pure over generated (record, T_min, npoints, chunksize, pool sizes). Exploration; interleavings are not enumerated (see note).",
    "Thread schedules are reduced to histories by the single Mutex around lookup+compute (feos-core/src/state/residual_properties.rs); a lock-free cache would need a schedule-owning tool instead. Tolerance 1e-9 relative plus a measured conditioning allowance; the 12 atomic getters (one cache entry each) of models without an association term additionally to 1e-11 of the contribution-wise absolute sum of that derivative of A (the real part of every dual-number evaluation must be the f64 evaluation up to roundoff); states below f_eta = 0.02 are not used (A_res itself is only 1e-9 accurate there). par_pure vs pure: densities/pressures to 1e-8 (chunks restart without continuation), temperatures/order/pool-size independence to 1e-13.",
    "DESIGN.md section 4, C11",
)

CHECKS["C03"] = (
    "property-based testing: exhaustive enumeration of the 2^10 StateBuilder input masks with injected invalid values against a reference decision table; seed-independent success lattice over the Gross-Sadowski collections; proptest-generated T-p constructions with an independent p(rho) scan + bisection root oracle (lowest Gibbs energy / requested branch); round trips for (p,h),(p,s),(T,h),(T,s),(V,u) targets",
    "Every run enumerates all 1024 presence masks of the ten optional builder inputs for two models x three caloric kinds with valid values and with every single injected NaN / inf / negative / wrong-length value and compares Ok/Err and the echoed fields with a reference table re-implemented from the documentation of State::new / new_full; constructs 239 400 (T,p,hint) states over all 133 records of gross2001/2002/2005/2006 (each must succeed and meet the pressure; un-hinted result must be the lower-Gibbs root); and runs generated T-p and iterative-target constructions over all 13 model families. Exploration: the success clause over the continuum is decided on the lattice plus sampled points.",
    "Trusted: State::new_nvt and the pressure / Gibbs getters used by the harness-side scan (validated by C01/C02). Zero values and invalid secondary inputs (rho, x, p, h, s, u, T0) are not asserted either way (the property is silent); multi-loop isotherms, isotherms with NaN pressures below their largest root and roots above max_density are excluded from the branch / Gibbs clauses. Tolerances: pressure 1e-7 rel + 1e-10 abs (reduced units), caloric targets 100 x the Newton wrapper's own step bound, echo 5e-14.",
    "DESIGN.md section 4, C03",
)

CHECKS["C14"] = (
    "property-based testing against a reference model: generated JSON parameter files (identifier kinds, file order, binary-record orientation, missing pairs) and queries (ordered subsets, injected duplicates / unknown names) checked against a harness-side lookup model; differential routes (from_json / from_multiple_json / from_records / new_binary / subset / reversed files); re-implemented group-contribution combining rules; serde round trips of every record type",
    "Every run writes thousands of synthetic parameter files for eight parameter types, enumerates every ordered query up to size 4 of a small file exhaustively, queries the shipped files in random order, builds group-contribution models from generated chemical records (segment multisets, branched bond lists, permuted tables) on the homo, hetero-EoS and hetero-DFT routes and compares with the documented combining rules evaluated by the harness, and round-trips 22 record types through serde. Exploration over generated inputs; identifier strings are generated from a restricted alphabet.",
    "Trusted: serde_json, the file system under /verif/work (files are written and removed inside each case). from_json_segments de-duplicating a repeated query is observed and reported in the evidence, not asserted (its documentation does not claim rejection). Non-zero site_indices in binary association records are not generated. Tolerances: routes 1e-13 (measured bitwise), combining rules 1e-11, behaviour under segment permutation 1e-9 (1e-6 on the iterative association path).",
    "DESIGN.md section 4, C14",
)
CHECKS["C15"] = (
    "exhaustive enumeration of a finite set (every file and record under parameters/) with executable validity predicates: typed parse, unknown fields, duplicate lookup names, referential integrity of binary / segment files, positivity, critical point + saturation curve with finite properties, group-contribution assembly, ideal-gas heat capacities",
    "The set is finite and is enumerated completely on every run (3535 cases: 31 files, 2208 pure records, 330 ideal-gas records, 968 substance x segment-table assemblies), from the directory listing, so that a new or renamed file fails as 'no record type'. Each pure PC-SAFT / SAFT-VR Mie / SAFT-VRQ Mie record must have a critical point satisfying C06's conditions and an 8-point saturation curve (C04's range) with finite p, rho, h, s, cp, speed of sound.",
    "Duplicate identifiers are asserted for the substance name (the lookup kind of every shipped example and README); shared cas / iupac / smiles / inchi between records with distinct names (rehner2020 water schemes, esper2023 E/Z isomers, documented hydrogen spin isomers) and a pair stored twice with identical values in held2014_binary.json are reported as observations in the evidence. 'Has a saturation curve' is decided with an initial-temperature ladder and a continuation fallback; failures of the default solver call are C04's business and are listed as observations.",
    "DESIGN.md section 4, C15",
)

CHECKS["C08"] = (
    "differential property-based testing: generated (model spec, state) pairs evaluated through two independent code paths (functional vs equation of state, wrappers vs bare model, ePC-SAFT without ions vs PC-SAFT, SAFT-VRQ Mie FH0 vs SAFT-VR Mie, closed-form vs iterative association, homo-GC from_segments vs harness-combined record, Peng-Robinson vs closed form in SI)",
    "Eight sampled parts (about 14 700 pair-states per quick run) compare beta A_res/N, p_res, S_res, mu_res, dp_dv, dp_dt, dp_dni and dmu_dni of the two members of each pair with cancellation-safe, conditioning-aware tolerances; a mismatch that matches the code signature of an open known finding is attributed to it and the rest of the model is still compared with the affected contribution removed. Exploration over generated parameter sets, states, FMT versions and option structs.",
    "Tolerances: DFT vs EoS 1e-9 + 1e-12 round term, wrappers / ePC-SAFT 1e-13 (widened by the association stiffness eps*rho*Delta and to 1e-8 on the iterative association path), homo-GC 1e-11, Peng-Robinson 1e-12, VRQ(FH0) vs VR Mie 1e-3 (different Barker-Henderson quadratures, pure components only). Open known findings masked by signature: pure PC-SAFT functional without dipole-quadrupole term, gc-PC-SAFT functional without dipole term, functional ignores dq_variant, association functional drops C sites on the iterative path.",
    "DESIGN.md section 4, C08",
)
CHECKS["C09"] = (
    "metamorphic property-based testing: permutation of components (all permutations, n <= 4), zero-mole padding, splitting into identical components, Components::subset vs directly built model (all subsets and orders, non-default options), pure-component quantities inside mixture algorithms vs the pure model",
    "Five sampled parts (about 14 800 cases, 1.1 million comparisons per quick run) over all model families with non-default option structs forced in 75 % of the cases: scalar results must be unchanged and indexed results permuted; padded / split / subset models must reproduce the directly built model including compute_max_density; vapor_pressure, vle_pure_comps, critical_point_pure, ln_phi_pure_liquid, activity coefficients and Henry constants must equal the harness recipe on directly built pure models.",
    "Tolerances 2e-12 (1e-11 gc / ePC-SAFT / SAFT-VR Mie, 3e-9 Peng-Robinson, 2e-8 with association, 1e-7 for solver results, 1e-3 for gc solver results whose HashMap-ordered builds differ). Splitting ions, the sigma(T) water record and gc molecules with binary group k_ij is excluded by construction. Open known findings masked by signature: see C08 (mirror entries).",
    "DESIGN.md section 4, C09",
)
CHECKS["C10"] = (
    "property-based testing with a reference model: Total = IdealGas + Residual for every selector getter, closed forms of the ideal-gas part in SI, harness re-implementation of the Joback polynomial and DIPPR 100/107/127 equations (cp, cv, derivatives, Gauss-Legendre integrals for h, u, s differences), ideal mixing, zero-density limit along density sequences down to 1e-12 rho_max",
    "Sampled part (32 000 cases x ~125 comparisons: 13 residual families x shipped / random DIPPR 100/107/127 / Joback-from-segments / random Joback ideal-gas models, T in [150,1500] K), limit part (16 000 density sequences) and an exhaustive lattice over all 308 poling2000 records and the 88 joback1987 group-contribution molecules.",
    "Tolerances: sum rule 1e-11 of the cancellation-safe scale, closed forms 1e-12, SI pressure 1e-13, DIPPR cp 2e-10, Joback vs plain polynomial 2e-5 (the model uses the CODATA-2014 gas constant: systematic 3.4e-7), limit ratio per decade in [0.07,0.13]. The reference state of h_ig/s_ig is arbitrary and not asserted. Open known findings: the ePC-SAFT Born term does not vanish at zero density; roundoff of the ionic chi function below 1e-8 rho_max.",
    "DESIGN.md section 4, C10",
)
CHECKS["C20"] = (
    "property-based testing with reference models: entropy-scaling identities (value = reference x exp(correlation), harness-evaluated correlation polynomial and Chapman-Enskog reference, vanishing-component limit, equal-s_res metamorphic relation by harness bisection); estimator: differential predict vs wrapped library call for all 12 DataSet variants, self-generated targets give zero cost for every loss, closed forms of the robust losses, normalised-weight cost concatenation",
    "Three sampled parts per run: 15 000 transport states (PC-SAFT with shipped / random coefficients and SAFT-VRQ Mie, T/Tc in [0.5,2], gas to liquid densities, binaries with x2 in {0,1e-12}), 20 000 loss cases (250 000 residual values on both sides of |r| = f), 1 500 estimator cases with about 3 000 generated data sets of 1-20 points.",
    "PeTS has no entropy scaling in this tree (commented out) and is not covered; diffusion / thermal conductivity are pure-component only. Tolerances 1e-13 .. 1e-9 (see evidence); states with |ln reduced| > 200 are discarded. Open known finding: the thermal-conductivity reference is negative for long chains at low reduced temperature (positivity clause masked by signature).",
    "DESIGN.md section 4, C20",
)

CHECKS["C05"] = (
    "property-based testing with defining-residual oracles: isofugacity, common T and p, material balance, specified composition, non-copies, p_bubble >= p_dew recomputed from fresh states at the returned (T,V,N); seed-independent success lattice over hydrocarbon pairs of gross2001; generated options, initial guesses, diagrams, heteroazeotropes / LLE",
    "Lattice: 243 (quick) / all 974 (thorough) admissible hydrocarbon pairs x 6 temperatures x 7 compositions: bubble and dew points must be found, flashes at theta in {0.1,0.5,0.9} of the envelope must be found when p_bub/p_dew > 1.05. Sampled: 6 000 bubble / dew / flash problems on binary and ternary PC-SAFT, gc-PC-SAFT and SAFT-VR Mie mixtures with solver options and initial guesses (incl. flash results from another temperature and from the other end of the same envelope; a guided flash with default options may not fail where the unguided one returns a phase split), 400 diagrams (binary_vle at T and p, bubble / dew lines), 1 000 water + alcohol / hydrocarbon heteroazeotrope, VLLE and LLE problems.",
    "Fugacity equality is tested on ln(x phi p) and pressure equality separately (ln phi of a liquid at vanishing pressure carries the pressure roundoff). p_bubble >= p_dew only where both results are stable vapour-liquid pairs. Tolerances: |d ln f| 1e-6, pressures 1e-7 rel + absolute term, balances 1e-12. Open known findings masked by signature: rachford_rice failures for 5 % C16-C20 alkane in C5-C7 ring/aromatic solvents at theta = 0.5, zero-pressure gas pairs (SAFT-VR Mie), heteroazeotrope with identical phases, near-trivial two-phase results, result beyond max_density.",
    "DESIGN.md section 4, C05",
)
CHECKS["C06"] = (
    "property-based testing with defining-condition oracles recomputed from fresh states: pure critical conditions, smallest eigenvalue of the scaled composition Hessian (own Jacobi solver) and cubic form along its eigenvector (Ridders), spinodal conditions and bracketing; exhaustive lattice over the shipped pure records; random Peng-Robinson triples against their (Tc, pc)",
    "Anchors (8 systems that must solve), exhaustive pure lattice (2191 records: default critical point, initial temperatures 0.5 and 1.6 Tc, spinodals at 0.5/0.7/0.9/0.99 Tc), 2 000 random Peng-Robinson triples, 4 000 mixture cases (critical points with / without initial temperature, State::spinodal, PhaseDiagram::spinodal), 2 000 critical_point_binary cases at given T or p.",
    "Mixture cubic condition tolerance 1e-3 (+50x Ridders error): the library's convergence test does not see the cubic component (observation). 'Same point from different initial temperatures' asserted for Peng-Robinson below the alpha kink only; spinodal clauses only when the critical point is confirmed as the vapour-liquid one. Open known findings masked by signature: liquid spinodal returned on the vapour branch, SAFT-VR Mie critical points at negative pressure, second Peng-Robinson critical point for kappa > 1.",
    "DESIGN.md section 4, C06",
)
CHECKS["C07"] = (
    "property-based testing: tangent-plane distance of every trial state recomputed independently from ln phi of fresh states (soundness, strict < 0); completeness on both sides of the phase envelope (lattice + generated margins) and across the pure binodal; flash on unstable feeds must split",
    "Lattice (every 8th hydrocarbon pair of C05 x temperatures x compositions x inside / outside pressures), 8 000 generated mixture feeds with solver options, 8 000 pure states on density grids across the binodal.",
    "Pure states inside the binodal at p <= 0 have no fugacity coefficient (stability_analysis returns Err): counted inconclusive. Sampled mixtures with k_ij can have liquid-liquid splits: 'expected stable' is a violation only on the lattice (k_ij = 0) and for PC-SAFT pure fluids. Open known finding: the acceptance threshold -1e-8 lies below the noise of the reported tpd (recomputed tpd up to +1e-7, low-pressure equilibrium phases reported unstable).",
    "DESIGN.md section 4, C07",
)
CHECKS["C13"] = (
    "property-based testing with a limit oracle: B and C against Neville-extrapolated low-density limits of (Z-1)/rho and its divided differences with error estimates, per contribution; dB/dT, dC/dT against Ridders derivatives of the coefficient; amount independence; quadratic composition form where the model implies it",
    "Exhaustive lattice over every shipped pure PC-SAFT / SAFT-VR Mie / SAFT-VRQ Mie record at two reduced temperatures (4 382 cases) plus 10 000 generated cases over all 13 families, 1-3 components, tau in [0.5,3].",
    "Electrolytes excluded by the property. The quadratic form B_mix(x) is asserted only for Peng-Robinson, PeTS and FMT (one-fluid SAFT models do not imply it). Tolerances: B 1e-5, C 1e-3, T-derivatives 1e-6 or 50x Ridders error. Open known findings masked per contribution: cross-association returns 0 at rho = 0, SAFT-VR Mie chain term for m != 1, SAFT-VRQ Mie mixtures NaN, uv-theory BH NaN, polar terms lack the three-body part of C, functionals as bulk models at rho = 0.",
    "DESIGN.md section 4, C13",
)

CHECKS["C04"] = (
    "property-based testing: exhaustive lattice over every shipped pure record x 8 reduced temperatures with round trips pure(T) -> p -> pure(p) -> T' -> pure(T'); generated temperatures, solver options, specifications; PhaseDiagram::pure monotonicity oracle; mixture helper functions vs directly built pure models; random Peng-Robinson / PeTS / uv-theory records (conditions whenever Ok)",
    "Lattice of 17 528 solves (2 191 records of the PC-SAFT, SAFT-VR Mie and SAFT-VRQ Mie collections x 8 temperatures of that model's own critical temperature; success demanded, failures keyed exactly by (record, temperature) in a known finding), 20 000 sampled solves, 512 diagrams with npoints in [3,200], 2 000 mixture-helper cases, 6 000 random-model cases per quick run. Equilibrium conditions are recomputed from fresh states at the returned (T, rho).",
    "Tolerances: pressure / chemical-potential equality 2e-6 in reduced units (the solver stops on the pressure update while the densities lag one Newton step; measured worst 3e-7), T round trip 1e-7. Open known findings: spurious SAFT-VR Mie critical points (six lafitte2013 records), pure(T) failures on a thin keyed set of (record, T) inside the stated success domain, collapsed solution for two SAFT-VRQ Mie hydrogen records.",
    "DESIGN.md section 4, C04",
)
CHECKS["C12"] = (
    "metamorphic / differential property-based testing: guided vs unguided solver calls (previous equilibrium, tp_init, molefracs_init, initial density / temperature in single-root situations) and every diagram point vs its stand-alone solve, incl. mirrored component order and points after failing neighbours",
    "Seven sampled parts (about 15 900 cases per quick run): pure VLE with guesses up to 0.3 Tc away or unconverged new_npt pairs at the target temperature, state constructors with initial density / temperature where an independent isotherm scan finds exactly one root, flashes started from neighbouring solutions, bubble / dew points with guesses within a factor 3, pure and binary phase diagrams and bubble / dew lines compared point by point with stand-alone solves.",
    "Hydrocarbon PC-SAFT systems without liquid-liquid demixing (T >= 0.5 of the highest pure Tc). Results on a different solution branch (bubble/dew exchange, retrograde envelopes) are counted inconclusive. Tolerances 2e-7 (T, p, x), 1e-6 pure saturation pressure, 1e-5 flash densities. Open known findings: swapped vapor()/liquid() after a guess from a higher temperature, bubble/dew pressure runaway and near-trivial results with in-range guesses, dew_point_line panic after a failed point, density iteration one Newton step short.",
    "DESIGN.md section 4, C12",
)
CHECKS["C16"] = (
    "property-based testing with the bulk equation of state as reference model: generated (functional, bulk state, grid type/size/length, Lanczos setting, profile wrapper) with the density set to the bulk value everywhere; independent geometric volume formulas as second oracle",
    "1 504 profiles per quick run over 5 functional families x 3 FMT versions x 8 grid kinds (Cartesian 1-3D, periodic 2-3D with angles, spherical, polar, cylindrical) x pore / pair-correlation / solvation wrappers: weighted densities, Euler-Lagrange residual, grand potential density = -p, moles, zero excess grand potential / tension / adsorption / solvation energy, volume() = integral of one = geometric volume, one solve() call leaves the profile unchanged.",
    "Tolerances carry the measured roundoff amplification (1 + k_max R_max) of the Kierlik-Rosinberg weights and the documented ln(|rho| + EPSILON) regularisation of the ideal-chain term; iterative association to tol_cross_assoc. gc ring molecules (panic by design) and PairCorrelation with heterosegmented functionals are excluded. Lanczos factors are trivial for a uniform fluid.",
    "DESIGN.md section 4, C16",
)
CHECKS["C17"] = (
    "property-based testing with numerical-derivative and adjointness oracles: Ridders first variation of the integrated Helmholtz energy vs the functional derivative (localised per contribution); exact adjointness of weighted-density and functional-derivative convolutions per kernel (exhaustive lattice of kernel shapes x geometries x sizes); black-box second variation through one Newton step and Richardson differences of the public residual; observed order of Newton convergence",
    "Per quick run: 512 generated first-variation cases (tanh / oscillating profiles, Gaussian perturbations, all grid kinds and functionals incl. heterosegmented chains), an exhaustive lattice of 684 kernel-shape adjointness cases, 304 Newton-step cases (rho and ln rho, external potentials, frozen regions, pores, bond integrals), 112 Newton-convergence cases.",
    "Polar / cylindrical axes are decided only to the accuracy of the quasi-discrete Hankel transform pair (2e-3 on the lattice, 0.05-0.5 of the sup-norm scale in the sampled part): measured to be a property of the transform pair, identical for the identity kernel. Spherical axes: the functional derivative is the exact gradient in the measure r^2 dr; against the library's shell-volume weights it is off by O(dr^2/12 r^2) (bound included). No hook into feos-dft was needed.",
    "DESIGN.md section 4, C17",
)

CHECKS["C18"] = (
    "property-based testing of the DFT solver: generated (functional, geometry, bulk state, initial profile, solver chain of 1-3 Picard/Anderson/Newton stages, specification) with defining-residual oracles recomputed by the harness (RMS Euler-Lagrange residual from residual(false), positivity, particle-number identity) and differential agreement of observables between solver chains; success lattice",
    "Lattice of 120 problems (propane, butane, PeTS x T/Tc in {0.6..0.9} x planar interface / LJ93 slit / LJ93 sphere, each with a second solver chain and a Moles / TotalMoles / equimolar-surface solve; success demanded) plus 160 generated problems over four functional families, planar interfaces and slit / cylindrical / spherical pores with 2-3 generated solver chains each.",
    "Cross-chain agreement is asserted on the lattice and for planar interfaces only (two distinct stationary profiles with residual 1e-15 exist in a cylindrical pore); its tolerance 50 T sum m_i int|res_i| is derived from the way grand_potential_density eliminates ln rho. Open known findings masked by signature: Moles on heterosegmented chains, Anderson stages drifting rho_bulk under the default specification, AntiSymWhiteBear NaN inside walls, negative densities on the cylinder axis with gc chains.",
    "DESIGN.md section 4, C18",
)
CHECKS["C19"] = (
    "property-based testing with re-solve oracles: profiles re-solved at mu +- h, p +- h, T +- h (Richardson h, h/2 with an error gate) against the reported N, dn_dmu, dn_dp, dn_dt and adsorption enthalpies; Henry limit along decreasing bulk densities; metamorphic box-length / resolution invariance, monotonic decrease with T and pDGT comparison for the surface tension",
    "Per quick run 128 pore cases (slit / cylinder / sphere, LJ93 / Steele / SimpleLJ93 / hard wall, pure and binary, spherical and chain molecules), 96 Henry-limit cases, 64 planar-interface cases and 480 uniform-response cases (all 8 grid kinds incl. oblique periodic cells: for a uniform profile without potential dn_dmu, dn_dp, dn_dt, the Henry coefficients and the ideal-gas enthalpy of adsorption have closed forms in bulk properties); every case consists of 7-15 profile solves polished by an own Newton iteration to 1e-13 at exactly the requested bulk state.",
    "About 40 % of the generated pores fail their reference solve and are discarded (spread over all classes). Tolerances: derivatives 2e-4 (measured 4e-6), Gibbs relation 2e-4 in slits and first-order convergence in spheres, Henry 1e-4, gamma(L,n) 1e-3, pDGT within 15 % (PeTS reaches 10 % at 0.5 Tc). Open known findings: absolute GMRES tolerance spoils dn_dt of dilute profiles, polar-transform plateau of the Gibbs relation in cylinders, NaN dn_dt for some functionals, solve_pdgt returning NaN.",
    "DESIGN.md section 4, C19",
)

NOT_YET = {}

def main():
    props = [json.loads(l) for l in open(os.path.join(ROOT, "properties.jsonl"))]
    checks = []
    na = []
    for p in props:
        pid = p["id"]
        if pid in CHECKS:
            tech, text, note, ref = CHECKS[pid]
            checks.append({
                "property_id": pid,
                "quick_cmd": f"./run {pid} quick",
                "thorough_cmd": f"./run {pid} thorough",
                "evidence_file": f"/verif/evidence/{pid}.json",
                "replay_cmd_template": f"./run {pid} --replay {{path}}",
                "engine": "feos-verif",
                "level_claimed": {"category": "exploration", "text": text, "design_ref": ref},
                "level_note": note,
                "technique": tech,
            })
        else:
            na.append({"property_id": pid, "reason": NOT_YET.get(pid, "check under construction in this session (property-based check planned in DESIGN.md section 4); not claimed until it is built, calibrated on the unchanged tree and sensitivity-tested")})
    manifest = {
        "version": 1,
        "setup_cmd": "./run build",
        "hooks": {
            "guard": "--cfg feos_verif",
            "enable": "harness/.cargo/config.toml sets rustflags = [\"--cfg\", \"feos_verif\"] for the harness build, which compiles /repo (path dependency) with the guard on",
            "baseline_off_cmd": "cd /repo && cargo test --workspace --no-fail-fast --offline",
            "source_commits": [],
            "add_only": True,
        },
        "engines": [
            {
                "name": "feos-verif",
                "path": "/verif/harness",
                "serves_properties": sorted(CHECKS.keys()),
                "kind_free_text": "Rust crate (path-depends on /repo, /repo/feos-core, /repo/feos-dft): proptest-driven genome generator with sharding and shrinking to JSON replay files, deterministic lattice enumeration, evidence writer, known-finding matcher",
            }
        ],
        "checks": checks,
        "not_applicable": na,
        "notes": "All checks: ./run <id> quick|thorough rebuilds the harness against /repo's working tree (cargo fingerprinting) and runs it; exit 0 held / 1 VIOLATION / 2 infrastructure (inconclusive). VERIF_SEED selects the proptest seed.",
    }
    with open(os.path.join(ROOT, "MANIFEST.json"), "w") as f:
        json.dump(manifest, f, indent=1)
        f.write("\n")
    try:
        import jsonschema
        schema = json.load(open("/root/.vp/MANIFEST.schema.json"))
        jsonschema.validate(manifest, schema)
        print("MANIFEST.json valid;", len(checks), "checks,", len(na), "not_applicable")
    except ImportError:
        print("written (jsonschema not available for validation)")

if __name__ == "__main__":
    main()
