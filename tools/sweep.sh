#!/bin/bash
# tools/sweep.sh <binary> <seed> [<seed> ...]: quick tiers of all properties for several seeds with a fixed
# copy of the check binary (for background `vp run` campaigns; evidence goes to the snapshot, not /verif).
# Prints one line per (seed, property); VIOLATION lines and replays are kept under ./replays of the snapshot.
BIN="$1"; shift
export VERIF_ROOT="$PWD" VERIF_THREADS="${VERIF_THREADS:-8}"
mkdir -p evidence replays work
for seed in "$@"; do
  for c in C01 C02 C03 C04 C05 C06 C07 C08 C09 C10 C11 C12 C13 C14 C15 C16 C17 C18 C19 C20; do
    s=$(date +%s)
    out="$(VERIF_SEED=$seed "$BIN" $c quick 2>&1)"; rc=$?
    echo "seed=$seed $c rc=$rc $(( $(date +%s)-s ))s"
    if [ $rc -ne 0 ]; then echo "$out" | grep -E "VIOLATION|panicked|FAIL" | head -n 5; fi
  done
done
