#!/usr/bin/env python3
"""tools/kf_status.py <status> <id> [<id>...] [--commit c --what text]: set status of known findings"""
import json,sys
args=sys.argv[1:]; status=args[0]; ids=[]; commit=None; what=None
i=1
while i<len(args):
    if args[i]=='--commit': commit=args[i+1]; i+=2
    elif args[i]=='--what': what=args[i+1]; i+=2
    else: ids.append(args[i]); i+=1
p='/verif/known_findings.json'
d=json.load(open(p))
for f in d['findings']:
    if f['id'] in ids:
        f['status']=status
        if commit:
            f['commit']=commit
            f['record']=f"fixed: property={f['property']} {commit} {what or f['what'][:160]}"
        print(f['id'],'->',status)
json.dump(d,open(p,'w'),indent=1)
