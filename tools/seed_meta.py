#!/usr/bin/env python3
"""Write seeded/<Cxx>/<name>/meta.json from notes.md + confirm.json (+ detection results
in seeded/detection.json maintained by tools/run_seeded.sh)."""
import json, os, re, glob

ROOT = os.path.dirname(os.path.dirname(os.path.abspath(__file__)))
det = {}
dp = os.path.join(ROOT, "seeded", "detection.json")
if os.path.exists(dp):
    det = json.load(open(dp))
for d in sorted(glob.glob(os.path.join(ROOT, "seeded", "C*", "*"))):
    if not os.path.isdir(d):
        continue
    prop = os.path.basename(os.path.dirname(d))
    name = os.path.basename(d)
    notes = open(os.path.join(d, "notes.md")).read() if os.path.exists(os.path.join(d, "notes.md")) else ""
    confirm = json.load(open(os.path.join(d, "confirm.json"))) if os.path.exists(os.path.join(d, "confirm.json")) else None
    needs = ""
    m = re.search(r"(?is)(what it needs[^\n]*\n)(.*?)(\n#|\n\*\*|\Z)", notes)
    if m:
        needs = m.group(2).strip()[:1200]
    meta = {
        "property": prop,
        "name": name,
        "origin": "written by an independent sub-agent that saw only the property text and a scratch worktree of /repo",
        "needs_to_manifest": needs or "see notes.md",
        "confirmed_by_me": confirm,
        "what_i_ran": "tools/confirm_seed.sh (scratch worktree /tmp/confirm/repo): demo.rs as tests/seed_demo.rs with `cargo test --offline --features all_models --test seed_demo` on the unchanged tree (must pass) and with patch.diff applied (must fail); `cargo test --workspace --no-fail-fast --offline` with the patch (must pass). Detection: tools/mutant.sh <patch> <checks> = git -C /repo apply, ./run <Cxx> quick, git -C /repo checkout -- .",
        "detection": det.get(f"{prop}/{name}", {}),
    }
    json.dump(meta, open(os.path.join(d, "meta.json"), "w"), indent=1)
    print(prop, name, "confirmed" if confirm and confirm.get("confirmed") else "UNCONFIRMED", meta["detection"])
