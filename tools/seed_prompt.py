#!/usr/bin/env python3
import json,sys
pid, tag, n = sys.argv[1], sys.argv[2], sys.argv[3]
ws=f"/tmp/seed_{tag}"
for l in open('/verif/properties.jsonl'):
    p=json.loads(l)
    if p['id']==pid:
        prop=p['title']+'\n\n'+p['statement']+'\n\nQuantified over: '+p['quantifier']['text']
        open(ws+'/property.txt','w').write(prop+'\n')
t=open('/verif/tools/seed_prompt.txt').read().replace('@WS@',ws).replace('@PROPERTY@',prop).replace('@N@',n)
print(t)
