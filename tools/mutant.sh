#!/bin/bash
# tools/mutant.sh <patch.diff> <Cxx> [<Cyy> ...]
# Applies a patch to /repo, runs the quick checks of the listed properties, and reverts.
# Prints one line per check: CAUGHT (exit 1) / MISSED (exit 0) / INCONCLUSIVE (exit 2).
set -u
ROOT="$(cd "$(dirname "${BASH_SOURCE[0]}")/.." && pwd)"
PATCH="$(realpath "$1")"; shift
if ! git -C /repo diff --quiet; then echo "/repo has uncommitted changes; refusing"; exit 2; fi
if ! git -C /repo apply "$PATCH"; then echo "patch does not apply"; exit 2; fi
# revert and rebuild, so that no later direct use of harness/target/release/check sees the mutated build
trap 'git -C /repo checkout -- . ; "$ROOT/run" build >/dev/null 2>&1; echo "reverted /repo (harness rebuilt)"' EXIT
for c in "$@"; do
  out="$("$ROOT/run" "$c" quick 2>/dev/null)"; rc=$?
  case $rc in
    0) echo "$c: MISSED (exit 0)";;
    1) echo "$c: CAUGHT (exit 1)"; echo "$out" | grep -A1 VIOLATION | head -n 4 | cut -c1-400;;
    *) echo "$c: INCONCLUSIVE (exit $rc)"; echo "$out" | tail -n 15;;
  esac
done
