#!/bin/bash
# tools/mk_ws.sh <name>: private workspace /tmp/ws_<name>/{repo,harness,out} for a sub-agent.
set -eu
NAME="$1"
WS="/tmp/ws_$NAME"
rm -rf "$WS"
mkdir -p "$WS/out/findings"
git -C /repo worktree prune
git -C /repo worktree add --detach "$WS/repo" HEAD >/dev/null 2>&1
rsync -a --exclude target /verif/harness/ "$WS/harness/"
sed -i "s#path = \"/repo/feos-core\"#path = \"$WS/repo/feos-core\"#; s#path = \"/repo/feos-dft\"#path = \"$WS/repo/feos-dft\"#; s#path = \"/repo\"#path = \"$WS/repo\"#" "$WS/harness/Cargo.toml"
cp /verif/known_findings.json "$WS/out/"
cp /verif/DESIGN.md /verif/properties.jsonl "$WS/"
echo "$WS ready"
