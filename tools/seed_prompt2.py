#!/usr/bin/env python3
"""Second-round seed prompt: as seed_prompt.py plus a list of sites already used (to force different changes)."""
import json,sys,glob,re,subprocess
pid, tag, n = sys.argv[1], sys.argv[2], sys.argv[3]
base=subprocess.run(['python3','/verif/tools/seed_prompt.py',pid,tag,n],capture_output=True,text=True).stdout
used=[]
for d in sorted(glob.glob(f'/verif/seeded/{pid}/*/patch.diff')):
    s=open(d).read()
    files=re.findall(r'^\+\+\+ b/(\S+)',s,re.M)
    funcs=re.findall(r'^@@.*@@ (.*)$',s,re.M)
    used.append(f"- {', '.join(sorted(set(files)))}" + (f" (near: {funcs[0].strip()[:80]})" if funcs else ""))
extra="\n\nOther people have already written changes at the following sites for this property; yours must be at DIFFERENT sites and manifest through a different mechanism (do not re-use these files' same functions):\n"+"\n".join(used)+"\n"
print(base+extra)
