#!/bin/bash
# tools/mutant_iso.sh <patch.diff> <Cxx> [<Cyy> ...]
# Like tools/mutant.sh, but isolated: the patch is applied to a scratch worktree of /repo
# ($MUT_WS or /tmp/ws_mut: <ws>/repo, checked out at /repo's HEAD) and the checks are built from a copy of
# /verif/harness that path-depends on that worktree, so /repo itself (and background runs that
# build from it) are never touched. Prints CAUGHT / MISSED / INCONCLUSIVE per check.
set -u
ROOT="$(cd "$(dirname "${BASH_SOURCE[0]}")/.." && pwd)"
PATCH="$(realpath "$1")"; shift
WS="${MUT_WS:-/tmp/ws_mut}"
export CARGO_NET_OFFLINE=true
if [ ! -d "$WS/repo" ]; then
  mkdir -p "$WS/out"
  git -C /repo worktree prune
  git -C /repo worktree add --detach "$WS/repo" HEAD >/dev/null 2>&1 || exit 2
fi
git -C "$WS/repo" checkout -q -- . && git -C "$WS/repo" checkout -q --detach "$(git -C /repo rev-parse HEAD)" || exit 2
rsync -a --delete --exclude target --exclude Cargo.toml "$ROOT/harness/" "$WS/harness/"
sed "s#path = \"/repo/feos-core\"#path = \"$WS/repo/feos-core\"#; s#path = \"/repo/feos-dft\"#path = \"$WS/repo/feos-dft\"#; s#path = \"/repo\"#path = \"$WS/repo\"#" "$ROOT/harness/Cargo.toml" > "$WS/harness/Cargo.toml"
mkdir -p "$WS/out"; cp "$ROOT/known_findings.json" "$WS/out/"
if ! git -C "$WS/repo" apply "$PATCH"; then echo "patch does not apply"; exit 2; fi
trap 'git -C "$WS/repo" checkout -q -- .' EXIT
if ! (cd "$WS/harness" && cargo build --release --offline) >"$WS/build.log" 2>&1; then
  echo "BUILD FAILED with the patch (INCONCLUSIVE)"; grep -E "^error" -A6 "$WS/build.log" | head -n 30; exit 2
fi
for c in "$@"; do
  out="$(cd "$WS" && VERIF_ROOT="$WS/out" VERIF_REPO="$WS/repo" "$WS/harness/target/release/check" "$c" quick 2>/dev/null)"; rc=$?
  case $rc in
    0) echo "$c: MISSED (exit 0)";;
    1) echo "$c: CAUGHT (exit 1)"; echo "$out" | grep -A1 VIOLATION | head -n 4 | cut -c1-400;;
    *) echo "$c: INCONCLUSIVE (exit $rc)"; echo "$out" | tail -n 15;;
  esac
done
