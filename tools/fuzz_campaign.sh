#!/bin/bash
# tools/fuzz_campaign.sh <Cxx> <target> <runs> <max_total_time_s>
# Coverage-guided campaign (libFuzzer via cargo-fuzz) for one target; merges the campaign
# statistics into evidence/<Cxx>.json; prints a VIOLATION line for a crash artifact.
# exit 0 no crash, 1 crash (violation found by the in-target oracle), 2 infrastructure.
set -u
ROOT="$(cd "$(dirname "${BASH_SOURCE[0]}")/.." && pwd)"
P="$1"; T="$2"; RUNS="$3"; MAXT="$4"
SEED="${VERIF_SEED:-0}"; [ "$SEED" = "0" ] && SEED=1   # libFuzzer: 0 means random
export CARGO_NET_OFFLINE=true
CORPUS="$ROOT/fuzz/corpus/$T"
rm -rf "$CORPUS"; mkdir -p "$CORPUS" "$ROOT/replays"
cp "$ROOT/fuzz/seeds/$T/"* "$CORPUS/" 2>/dev/null
MAXLEN=$(stat -c %s "$ROOT/fuzz/seeds/$T/seed0.bin" 2>/dev/null || echo 1024)
LOG="$ROOT/fuzz/target/$T.campaign.log"; mkdir -p "$ROOT/fuzz/target"
cd "$ROOT/harness" || exit 2
if ! cargo +nightly fuzz build --fuzz-dir "$ROOT/fuzz" "$T" >"$LOG.build" 2>&1; then
  echo "fuzz build failed (inconclusive)"; tail -n 20 "$LOG.build"; exit 2
fi
cargo +nightly fuzz run --fuzz-dir "$ROOT/fuzz" "$T" "$CORPUS" -- -runs="$RUNS" -max_total_time="$MAXT" -seed="$SEED" \
  -max_len="$MAXLEN" -len_control=0 -print_final_stats=1 -timeout=120 -rss_limit_mb=8192 \
  -artifact_prefix="$ROOT/replays/$T-" >"$LOG" 2>&1
rc=$?
execs=$(grep -E "stat::number_of_executed_units" "$LOG" | awk '{print $2}')
newu=$(grep -E "stat::new_units_added" "$LOG" | awk '{print $2}')
cov=$(grep -E " cov: " "$LOG" | tail -n 1 | sed -E 's/.* cov: ([0-9]+).*/\1/')
art=$(grep -E "Test unit written to" "$LOG" | tail -n 1 | awk '{print $NF}')
status=0
kind=""
if [ -n "$art" ]; then
  if grep -q "VIOLATION-IN-FUZZ-TARGET" "$LOG"; then status=1; kind="violation"; else status=2; kind="timeout/oom/other crash (inconclusive)"; fi
elif [ $rc -ne 0 ]; then status=2; kind="fuzzer exit $rc"; fi
python3 - "$ROOT/evidence/$P.json" "$T" "${execs:-0}" "${newu:-0}" "${cov:-0}" "$SEED" "$RUNS" "$MAXT" "$art" "$kind" <<'PY'
import json,sys
f,t,execs,newu,cov,seed,runs,maxt,art,kind=sys.argv[1:]
try: d=json.load(open(f))
except Exception: sys.exit(0)
d['coverage'].setdefault('fuzz',{})[t]={'engine':'libFuzzer (cargo-fuzz, ASan build)','executions':int(execs),'new_corpus_units':int(newu),'edge_coverage':int(cov) if cov.isdigit() else None,'seed':int(seed),'runs_requested':int(runs),'max_total_time_s':int(maxt),'artifact':art or None,'outcome':kind or 'no crash'}
d['coverage']['evaluations']=d['coverage'].get('evaluations',0)+int(execs)
if kind=='violation': d['violations']=d.get('violations',0)+1
json.dump(d,open(f,'w'),indent=1)
PY
echo "fuzz $T: executions=${execs:-0} new_units=${newu:-0} cov=${cov:-?} outcome=${kind:-no crash}"
if [ $status -eq 1 ]; then echo "VIOLATION property=$P replay=$art"; grep "VIOLATION-IN-FUZZ-TARGET" "$LOG" | head -n 1 | cut -c1-600; fi
exit $status
