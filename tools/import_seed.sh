#!/bin/bash
# tools/import_seed.sh <tag> <Cxx> [<extra checks> ...]: import the changes a seeding sub-agent left under
# /tmp/seed_<tag>/out/<name>/ into seeded/<Cxx>/<name>/, confirm each one (tools/confirm_seed.sh) and run the
# quick tier(s) against it in the isolated mutant workspace (tools/mutant_iso.sh). Serialised by a lock.
ROOT="$(cd "$(dirname "${BASH_SOURCE[0]}")/.." && pwd)"
TAG="$1"; P="$2"; shift 2
exec 9>/tmp/import_seed.lock; flock 9
for d in /tmp/seed_$TAG/out/*/; do
  [ -f "$d/patch.diff" ] || continue
  name="$(basename "$d")"
  dst="$ROOT/seeded/$P/$name"
  mkdir -p "$dst"
  for f in patch.diff demo.rs demo_cmd.txt notes.md; do [ -f "$d/$f" ] && cp "$d/$f" "$dst/"; done
  "$ROOT/tools/confirm_seed.sh" "$dst"
  echo "== detection $P/$name"
  "$ROOT/tools/mutant_iso.sh" "$dst/patch.diff" "$P" "$@" 2>&1 | tee "$dst/detection.log"
done
